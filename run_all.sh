#!/bin/bash
# run every registered check's quick (or given tier) command once; summary at the end
tier=${1:-quick}
cd "$(dirname "$0")"
for c in $(python3 -c "import json; print(' '.join(x['property_id'] for x in json.load(open('MANIFEST.json'))['checks']))"); do
  out=$(./check $c --tier $tier 2>&1 | grep -E "^(OK|VIOLATION|KNOWN-FINDING|HARNESS)" | tr '\n' ' ')
  echo "$c: $out" | cut -c1-300
done
