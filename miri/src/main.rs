//! Engine E3: a small concurrent scenario on the UNHOOKED library with the real rayon
//! pool, meant to be interpreted by Miri (`cargo +nightly miri run`). Miri's own seeded
//! scheduler (`-Zmiri-seed`, preemption rate) picks the interleaving, its data-race
//! detector and borrow model are the oracle for what the baton scheduler of E2 cannot
//! see (missing Release/Acquire edges, racy non-atomic accesses, use after free), and the
//! functional oracle below (truth tables, node count after tear-down) covers the rest.
//!
//! usage: mirisim <kind: bdd|bcdd|zbdd|mtbdd> <workload seed>
//! exit 0 = clean, 1 = functional violation (message on stdout); Miri itself exits non-zero
//! with a diagnostic on undefined behaviour / data races / deadlock.

use oxidd::util::AllocResult;
use oxidd::{BooleanFunction, BooleanFunctionQuant, Function, Manager, ManagerRef};
use std::sync::Arc;

const NV: u32 = 4;
type TT = u16;

struct Rng(u64);
impl Rng {
    fn next(&mut self) -> u64 {
        // SplitMix64
        self.0 = self.0.wrapping_add(0x9E3779B97F4A7C15);
        let mut z = self.0;
        z = (z ^ (z >> 30)).wrapping_mul(0xBF58476D1CE4E5B9);
        z = (z ^ (z >> 27)).wrapping_mul(0x94D049BB133111EB);
        z ^ (z >> 31)
    }
    fn below(&mut self, n: u64) -> u64 {
        self.next() % n
    }
}

fn var_tt(v: u32) -> TT {
    let mut t = 0;
    for a in 0..16u32 {
        if a >> v & 1 == 1 {
            t |= 1 << a;
        }
    }
    t
}

fn tt_of<F: BooleanFunction>(f: &F) -> TT {
    let mut t = 0;
    for a in 0..16u32 {
        if f.eval((0..NV).map(|v| (v, a >> v & 1 == 1))) {
            t |= 1 << a;
        }
    }
    t
}

fn exists_tt(t: TT, v: u32) -> TT {
    let m = var_tt(v);
    let hi = t & m;
    let lo = t & !m;
    let any = hi >> (1 << v) | lo;
    (any & !m) | ((any & !m) << (1 << v))
}

fn fail(msg: String) -> ! {
    println!("E3-VIOLATION {}", msg);
    std::process::exit(1)
}

fn script<F>(tid: u64, seed: u64, pool: Vec<(F, TT)>, steps: usize, exists: Option<fn(&F, &F) -> AllocResult<F>>) -> Vec<(F, TT)>
where
    F: BooleanFunction + Clone,
{
    let mut rng = Rng(seed ^ tid.wrapping_mul(0xA24BAED4963EE407));
    let mut pool = pool;
    for step in 0..steps {
        let i = rng.below(pool.len() as u64) as usize;
        let j = rng.below(pool.len() as u64) as usize;
        let k = rng.below(pool.len() as u64) as usize;
        let (res, exp, what): (AllocResult<F>, TT, &str) = match rng.below(11) {
            0 => (pool[i].0.and(&pool[j].0), pool[i].1 & pool[j].1, "and"),
            1 => (pool[i].0.or(&pool[j].0), pool[i].1 | pool[j].1, "or"),
            2 => (pool[i].0.xor(&pool[j].0), pool[i].1 ^ pool[j].1, "xor"),
            3 => (pool[i].0.not(), !pool[i].1, "not"),
            4 => (
                pool[i].0.ite(&pool[j].0, &pool[k].0),
                (pool[i].1 & pool[j].1) | (!pool[i].1 & pool[k].1),
                "ite",
            ),
            5 => {
                let v = rng.below(NV as u64) as u32;
                let vf = pool[i].0.with_manager_shared(|m, _| F::var(m, v)).unwrap();
                match exists {
                    Some(ex) => (ex(&pool[j].0, &vf), exists_tt(pool[j].1, v), "exists"),
                    None => (pool[j].0.imp(&vf), !pool[j].1 | var_tt(v), "imp"),
                }
            }
            6 => {
                // clone and drop on this thread
                let c = pool[i].0.clone();
                drop(c);
                continue;
            }
            8 | 9 => {
                // drop a handle this thread has just read through, then collect: the collector
                // (here or on the gc thread) may free nodes whose last reader was another thread
                if pool.len() > 3 {
                    let (f, t) = pool.swap_remove(i);
                    if tt_of(&f) != t {
                        fail(format!("thread {} step {}: a handle changed its meaning", tid, step));
                    }
                    drop(f);
                }
                pool[0].0.with_manager_shared(|m, _| m.gc());
                continue;
            }
            _ => {
                if pool.len() > 3 {
                    pool.swap_remove(i);
                }
                continue;
            }
        };
        match res {
            Ok(f) => {
                let got = tt_of(&f);
                if got != exp {
                    fail(format!("thread {} step {}: {} gives {:04x}, expected {:04x}", tid, step, what, got, exp));
                }
                // canonicity across whatever the other threads created
                for (g, tg) in &pool {
                    if (*tg == exp) != (*g == f) {
                        fail(format!("thread {} step {}: handle equality disagrees with function equality ({:04x} vs {:04x})", tid, step, tg, exp));
                    }
                }
                pool.push((f, exp));
            }
            // capacity stays below 100 to keep the background collector out of the picture, so a run
            // that piles up garbage between collections may legitimately run out of nodes
            Err(_) => continue,
        }
    }
    pool
}

macro_rules! run {
    ($F:ty, $new:expr, $seed:expr, $initial:expr, $exists:expr) => {{
        type F = $F;
        let seed: u64 = $seed;
        let initial_nodes: usize = $initial;
        let mref = $new;
        let vars: Vec<(F, TT)> = mref.with_manager_exclusive(|m| {
            m.add_vars(NV);
            (0..NV).map(|v| (F::var(m, v).unwrap(), var_tt(v))).collect()
        });
        let base = Arc::new(vars);
        let mut handles = vec![];
        for tid in 0..2u64 {
            let b = base.clone();
            handles.push(std::thread::spawn(move || {
                let pool: Vec<(F, TT)> = b.iter().map(|(f, t)| (f.clone(), *t)).collect();
                script::<F>(tid, seed, pool, 9, $exists)
            }));
        }
        let m2 = mref.clone();
        let gc = std::thread::spawn(move || {
            let mut n = 0;
            for _ in 0..8 {
                n += m2.with_manager_shared(|m| m.gc());
                for _ in 0..4 {
                    std::thread::yield_now();
                }
            }
            n
        });
        let mut all: Vec<(F, TT)> = vec![];
        for h in handles {
            all.extend(h.join().unwrap());
        }
        let _ = gc.join().unwrap();
        // cross-thread canonicity
        for (i, (f, tf)) in all.iter().enumerate() {
            for (g, tg) in &all[i..] {
                if (tf == tg) != (f == g) {
                    fail(format!("results of different threads: handle equality disagrees with function equality ({:04x} vs {:04x})", tf, tg));
                }
            }
            if tt_of(f) != *tf {
                fail(format!("a result changed its meaning: {:04x} -> {:04x}", tf, tt_of(f)));
            }
        }
        drop(all);
        drop(base);
        let left = mref.with_manager_shared(|m| {
            m.gc();
            m.num_inner_nodes()
        });
        if left != initial_nodes {
            fail(format!("{} inner nodes left after dropping every handle and gc, expected {}", left, initial_nodes));
        }
    }};
}


// ---- MTBDD scenario: terminals are created, found and collected concurrently ----------

type MF = oxidd::mtbdd::MTBDDFunction<oxidd::mtbdd::terminal::I64>;
type Tab = [i64; 8];
const MV: u32 = 3;

fn mt_tab(f: &MF) -> Tab {
    use oxidd::mtbdd::terminal::I64;
    use oxidd::PseudoBooleanFunction;
    let mut t = [0i64; 8];
    for a in 0..8u32 {
        t[a as usize] = match f.eval((0..MV).map(|v| (v, a >> v & 1 == 1))) {
            I64::Num(x) => x,
            other => fail(format!("non-finite terminal {:?} in a finite computation", other)),
        };
    }
    t
}

fn mt_script(tid: u64, seed: u64, pool: Vec<(MF, Tab)>, steps: usize) -> Vec<(MF, Tab)> {
    use oxidd::mtbdd::terminal::I64;
    use oxidd::PseudoBooleanFunction;
    let mut rng = Rng(seed ^ tid.wrapping_mul(0xA24BAED4963EE407));
    let mut pool = pool;
    for step in 0..steps {
        let i = rng.below(pool.len() as u64) as usize;
        let j = rng.below(pool.len() as u64) as usize;
        let zip = |f: fn(i64, i64) -> i64, a: &Tab, b: &Tab| {
            let mut t = [0i64; 8];
            for k in 0..8 {
                t[k] = f(a[k], b[k]);
            }
            t
        };
        let (res, exp, what): (AllocResult<MF>, Tab, &str) = match rng.below(9) {
            0 | 1 => (pool[i].0.add(&pool[j].0), zip(|x, y| x + y, &pool[i].1, &pool[j].1), "add"),
            2 => (pool[i].0.sub(&pool[j].0), zip(|x, y| x - y, &pool[i].1, &pool[j].1), "sub"),
            3 => (PseudoBooleanFunction::min(&pool[i].0, &pool[j].0), zip(|x, y| x.min(y), &pool[i].1, &pool[j].1), "min"),
            4 => (PseudoBooleanFunction::max(&pool[i].0, &pool[j].0), zip(|x, y| x.max(y), &pool[i].1, &pool[j].1), "max"),
            5 | 6 => {
                // the same few constants on every thread: lookups of one terminal race with its collection
                let c = rng.below(4) as i64 + 2;
                (pool[i].0.with_manager_shared(|m, _| MF::constant(m, I64::Num(c))), [c; 8], "constant")
            }
            _ => {
                if pool.len() > 3 {
                    let (f, t) = pool.swap_remove(i);
                    if mt_tab(&f) != t {
                        fail(format!("thread {} step {}: a handle changed its meaning", tid, step));
                    }
                    drop(f);
                }
                pool[0].0.with_manager_shared(|m, _| m.gc());
                continue;
            }
        };
        match res {
            Ok(f) => {
                let got = mt_tab(&f);
                if got != exp {
                    fail(format!("thread {} step {}: {} gives {:?}, expected {:?}", tid, step, what, got, exp));
                }
                for (g, tg) in &pool {
                    if (*tg == exp) != (*g == f) {
                        fail(format!("thread {} step {}: handle equality disagrees with function equality", tid, step));
                    }
                }
                pool.push((f, exp));
            }
            Err(_) => continue,
        }
    }
    pool
}

fn run_mtbdd(seed: u64) {
    use oxidd::mtbdd::terminal::I64;
    use oxidd::PseudoBooleanFunction;
    let mref = oxidd::mtbdd::new_manager::<I64>(96, 48, 16, 2);
    let vars: Vec<(MF, Tab)> = mref.with_manager_exclusive(|m| {
        m.add_vars(MV);
        (0..MV)
            .map(|v| {
                let mut t = [0i64; 8];
                for a in 0..8u32 {
                    t[a as usize] = (a >> v & 1) as i64;
                }
                (MF::var(m, v).unwrap(), t)
            })
            .collect()
    });
    let base = Arc::new(vars);
    let mut handles = vec![];
    for tid in 0..2u64 {
        let b = base.clone();
        handles.push(std::thread::spawn(move || {
            let pool: Vec<(MF, Tab)> = b.iter().map(|(f, t)| (f.clone(), *t)).collect();
            mt_script(tid, seed, pool, 9)
        }));
    }
    let m2 = mref.clone();
    let gc = std::thread::spawn(move || {
        for _ in 0..8 {
            m2.with_manager_shared(|m| m.gc());
            for _ in 0..4 {
                std::thread::yield_now();
            }
        }
    });
    let mut all: Vec<(MF, Tab)> = vec![];
    for h in handles {
        all.extend(h.join().unwrap());
    }
    gc.join().unwrap();
    for (i, (f, tf)) in all.iter().enumerate() {
        for (g, tg) in &all[i..] {
            if (tf == tg) != (f == g) {
                fail("results of different threads: handle equality disagrees with function equality".into());
            }
        }
        if mt_tab(f) != *tf {
            fail("a result changed its meaning".into());
        }
    }
    drop(all);
    drop(base);
    let (left, terms) = mref.with_manager_shared(|m| {
        m.gc();
        (m.num_inner_nodes(), m.approx_num_inner_nodes())
    });
    let _ = terms;
    if left != 0 {
        fail(format!("{} inner nodes left after dropping every handle and gc", left));
    }
}

fn main() {
    let args: Vec<String> = std::env::args().collect();
    let kind = args.get(1).map(|s| s.as_str()).unwrap_or("bdd");
    let seed: u64 = args.get(2).and_then(|s| s.parse().ok()).unwrap_or(1);
    // capacity below 100: no background collector thread (its schedule would be Miri's too,
    // but it never terminates, which Miri reports as a leak of the main thread's children)
    match kind {
        "bdd" => run!(oxidd::bdd::BDDFunction, oxidd::bdd::new_manager(96, 16, 2), seed, 0, Some(|f: &oxidd::bdd::BDDFunction, v: &oxidd::bdd::BDDFunction| f.exists(v))),
        "bcdd" => run!(oxidd::bcdd::BCDDFunction, oxidd::bcdd::new_manager(96, 16, 2), seed, 0, Some(|f: &oxidd::bcdd::BCDDFunction, v: &oxidd::bcdd::BCDDFunction| f.exists(v))),
        "zbdd" => run!(oxidd::zbdd::ZBDDFunction, oxidd::zbdd::new_manager(96, 16, 2), seed, NV as usize, None),
        "mtbdd" => run_mtbdd(seed),
        _ => {
            eprintln!("unknown kind {}", kind);
            std::process::exit(2)
        }
    }
    println!("E3-OK kind={} seed={}", kind, seed);
}
