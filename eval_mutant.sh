#!/bin/bash
# usage: eval_mutant.sh <patch.diff> <check> [<check> ...]   — apply a seeded change to /repo, run the checks, revert
patch=$1; shift
cd /repo || exit 2
if ! git diff --quiet; then echo "repo not clean"; exit 2; fi
git apply "$patch" || { echo "patch does not apply"; exit 2; }
for c in "$@"; do
  out=$(cd /verif && timeout 1500 ./check $c --tier quick 2>&1 | grep -E "^(OK|VIOLATION|HARNESS|KNOWN)" | grep -v KNOWN | head -2 | tr '\n' ' ')
  echo "  $c: $out" | cut -c1-250
done
git checkout -- . ; git status --short | head -3
