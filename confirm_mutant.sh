#!/bin/bash
# usage: confirm_mutant.sh <result-dir>  — confirm a seeded change in a scratch worktree:
#   demo passes on HEAD, fails with the patch; the workspace test suite passes with the patch.
d=$1; W=/tmp/mutconfirm; export CARGO_TARGET_DIR=/tmp/mutconfirm-target CARGO_NET_OFFLINE=true
[ -d $W ] || git -C /repo worktree add --detach $W HEAD >/dev/null 2>&1
cd $W && git checkout -q --detach $(git -C /repo rev-parse HEAD) && git reset -q --hard && git clean -qfd crates
demos=$(ls $d/*.rs)
for f in $demos; do cp $f crates/oxidd/tests/; done
names=$(for f in $demos; do basename $f .rs; done)
res=""
for n in $names; do cargo test -q $CONFIRM_FLAGS -p oxidd --test $n --offline >/tmp/mutconfirm.log 2>&1 && res="$res head:$n=pass" || res="$res head:$n=FAIL"; done
git apply $d/patch.diff || { echo "patch does not apply"; exit 2; }
for n in $names; do cargo test -q $CONFIRM_FLAGS -p oxidd --test $n --offline >/tmp/mutconfirm.log 2>&1 && res="$res patched:$n=pass" || res="$res patched:$n=FAIL"; done
for f in $demos; do rm crates/oxidd/tests/$(basename $f); done
cargo test -q --workspace --no-fail-fast --offline >/tmp/mutconfirm-suite.log 2>&1 && res="$res suite=pass" || res="$res suite=FAIL"
git reset -q --hard; git clean -qfd crates
echo "$d:$res"
