#!/bin/bash
# Apply every kept seeded change in turn to /repo, run the quick tier of the check(s) it was written
# for, restore the tree; writes seeded/MATRIX.txt. /repo must be clean and nothing else may use it meanwhile.
cd "$(dirname "$0")"
out=seeded/MATRIX.txt
echo "# seeded change -> result of the quick tier of its property's check (VERIF_SEED=${VERIF_SEED:-1}); $(date -u +%Y-%m-%dT%H:%MZ); /repo $(git -C /repo rev-parse --short HEAD)" > $out
for d in seeded/*/; do
  id=$(basename $d)
  [ -f $d/patch.diff ] || continue
  prop=$(python3 -c "import json;print(json.load(open('$d/meta.json'))['property'])")
  if ! git -C /repo diff --quiet; then echo "repo not clean" >> $out; exit 2; fi
  git -C /repo apply $(pwd)/$d/patch.diff || { echo "$id: patch does not apply" >> $out; continue; }
  res=$(timeout 2400 ./check $prop --tier quick 2>&1 | grep -E "^(OK|VIOLATION|HARNESS)" | head -1 | sed 's/replay=.*replays\//replay=/' | cut -c1-120)
  git -C /repo checkout -- .
  echo "$id $prop: $res" >> $out
  rm -f replays/C*.json
done
./check --build >/dev/null 2>&1
echo "# done $(date -u +%Y-%m-%dT%H:%MZ)" >> $out
