//! Engine E2: a baton scheduler over real OS threads. Exactly one simulated thread runs
//! at a time; every hook call of the hooked OxiDD build is a decision point at which a
//! seeded strategy decides who runs next. The trace of switches is the replayable
//! schedule.

use crate::rng::Rng;
use serde::{Deserialize, Serialize};
use std::cell::Cell;
use std::sync::{Condvar, Mutex, OnceLock};

pub const NONE: usize = usize::MAX;

#[derive(Clone, Copy, Debug, PartialEq, Eq)]
enum TState {
    /// announced by `expect_thread`, the OS thread has not arrived yet
    Expected,
    Ready,
    Spinning,
    Finished,
}

struct Slot {
    name: &'static str,
    state: TState,
    daemon: bool,
    priority: u64,
    last_site: u32,
    /// step at which the thread last held the baton
    last_run: u64,
    /// the thread waits for the baton on its own condition variable
    cv: std::sync::Arc<Condvar>,
}

#[derive(Clone, Debug, Serialize, Deserialize, PartialEq)]
pub enum Strategy {
    /// switch with probability num/1000 at every decision point
    Random { switch_permille: u32 },
    /// PCT-style: random priorities, `changes` priority change points
    Pct { change_points: Vec<u64> },
    /// one victim thread is frozen during [from, to) steps
    Starve { victim: usize, from: u64, to: u64, switch_permille: u32 },
    /// follow a recorded trace
    Replay,
}

#[derive(Clone, Debug, Serialize, Deserialize, Default, PartialEq)]
pub struct Trace {
    /// (step, site, to) for every switch of the baton
    pub switches: Vec<(u64, u32, u32)>,
    /// call numbers of buggify() that returned true
    pub buggify_fired: Vec<u64>,
}

#[derive(Clone, Debug, Serialize, Deserialize, PartialEq)]
pub struct SchedCfg {
    pub seed: u64,
    pub strategy: Strategy,
    pub max_steps: u64,
    /// per-mille probability per buggify site id (site, permille)
    pub buggify: Vec<(u32, u32)>,
    /// (knob id, value)
    pub knobs: Vec<(u32, u64)>,
}

#[derive(Clone, Debug, Default, Serialize, Deserialize)]
pub struct SimStats {
    pub steps: u64,
    pub switches: u64,
    pub spins: u64,
    pub threads: u64,
    pub site_counts: Vec<(u32, u64)>,
    pub buggify_fired: u64,
    pub max_live_threads: u64,
}

struct Inner {
    active: bool,
    threads: Vec<Slot>,
    current: usize,
    step: u64,
    spins_since_progress: u64,
    rng: Rng,
    frng: Rng,
    cfg: SchedCfg,
    trace: Trace,
    replay_pos: usize,
    buggify_calls: u64,
    replay_bug_pos: usize,
    site_counts: Vec<u64>,
    failure: Option<String>,
    stats: SimStats,
    /// main is deliberately waiting for everybody else to become idle
    settling: bool,
    /// incremented by every `begin`; threads of an earlier simulation that never finished
    /// (e.g. a collector thread whose Quit signal got lost) stay parked forever
    generation: u64,
    /// last decisions (step, site, from, to, forced) for failure reports
    recent: std::collections::VecDeque<(u64, u32, usize, usize, bool)>,
    /// cooperative fault points only fire while this is set (not during manager set-up)
    buggify_enabled: bool,
}

pub struct Sim {
    inner: Mutex<Inner>,
    cv: Condvar,
}

static SIM: OnceLock<Sim> = OnceLock::new();

thread_local! {
    static TID: Cell<usize> = const { Cell::new(NONE) };
    static GEN: Cell<u64> = const { Cell::new(0) };
}

pub fn sim() -> &'static Sim {
    SIM.get_or_init(|| Sim {
        inner: Mutex::new(Inner {
            active: false,
            threads: vec![],
            current: NONE,
            step: 0,
            spins_since_progress: 0,
            rng: Rng::from_raw(0),
            frng: Rng::from_raw(0),
            cfg: SchedCfg { seed: 0, strategy: Strategy::Random { switch_permille: 0 }, max_steps: 0, buggify: vec![], knobs: vec![] },
            trace: Trace::default(),
            replay_pos: 0,
            buggify_calls: 0,
            replay_bug_pos: 0,
            site_counts: vec![0; 256],
            failure: None,
            stats: SimStats::default(),
            settling: false,
            generation: 0,
            recent: std::collections::VecDeque::new(),
            buggify_enabled: false,
        }),
        cv: Condvar::new(),
    })
}

/// failure of the simulated system detected by the scheduler itself
fn fail(inner: &mut Inner, class: &str, msg: String) -> ! {
    let trace = serde_json::to_string(&inner.trace).unwrap_or_default();
    let who: Vec<String> = inner
        .threads
        .iter()
        .enumerate()
        .map(|(i, t)| format!("{}:{}:{:?}@{}", i, t.name, t.state, t.last_site))
        .collect();
    let recent: Vec<String> = inner.recent.iter().map(|r| format!("{}:s{}:{}->{}{}", r.0, r.1, r.2, r.3, if r.4 { "!" } else { "" })).collect();
    eprintln!("recent decisions: {}", recent.join(" "));
    let report = serde_json::json!({"class": class, "detail": msg, "step": inner.step, "threads": who, "trace": inner.trace});
    if let Ok(p) = std::env::var("VERIF_SIM_FAILFILE") {
        let _ = std::fs::write(p, report.to_string());
    }
    eprintln!("SIM-FAILURE class={} step={} {} threads={:?} trace_len={}", class, inner.step, msg, who, trace.len());
    std::process::abort();
}

impl Inner {
    fn live(&self) -> usize {
        self.threads.iter().filter(|t| t.state != TState::Finished).count()
    }
    /// choose who runs next; `forced`: the caller cannot continue (spin)
    fn choose(&mut self, me: usize, forced: bool, site: u32) -> usize {
        // candidates other than me
        let ready: Vec<usize> = (0..self.threads.len()).filter(|&i| i != me && self.threads[i].state == TState::Ready).collect();
        let spinning: Vec<usize> = (0..self.threads.len()).filter(|&i| i != me && self.threads[i].state == TState::Spinning).collect();
        if let Strategy::Replay = self.cfg.strategy {
            if let Some(&(s, _site, to)) = self.trace.switches.get(self.replay_pos) {
                if s == self.step {
                    self.replay_pos += 1;
                    let to = to as usize;
                    if to < self.threads.len() && matches!(self.threads[to].state, TState::Ready | TState::Spinning) {
                        return to;
                    }
                }
            }
            if !forced {
                return me;
            }
            // forced switch without a trace entry (shrunk trace): deterministic default
            return ready.first().copied().or(self.pick_longest_waiting(&spinning)).unwrap_or(me);
        }
        let _ = site;
        match self.cfg.strategy.clone() {
            Strategy::Random { switch_permille } => self.pick_random(me, forced, switch_permille, &ready, &spinning, None),
            Strategy::Starve { victim, from, to, switch_permille } => {
                let frozen = if self.step >= from && self.step < to { Some(victim) } else { None };
                if frozen == Some(me) && !forced {
                    // the victim itself is running: take the baton away if anyone else can run
                    let r: Vec<usize> = ready.iter().copied().filter(|&i| Some(i) != frozen).collect();
                    if let Some(&x) = r.first() {
                        let k = self.rng.below(r.len() as u64) as usize;
                        let _ = x;
                        return r[k];
                    }
                }
                self.pick_random(me, forced, switch_permille, &ready, &spinning, frozen)
            }
            Strategy::Pct { change_points } => {
                if change_points.contains(&self.step) && me < self.threads.len() {
                    // demote the running thread below everybody else
                    let min = self.threads.iter().map(|t| t.priority).min().unwrap_or(1);
                    self.threads[me].priority = min.saturating_sub(1);
                }
                let mut best: Option<usize> = None;
                let mut cands: Vec<usize> = ready.clone();
                if !forced {
                    cands.push(me);
                }
                for &i in &cands {
                    if best.is_none_or(|b| self.threads[i].priority > self.threads[b].priority) {
                        best = Some(i);
                    }
                }
                match best {
                    Some(b) => {
                        // spinning threads must get a chance from time to time, otherwise a
                        // high-priority thread waiting for them starves them forever
                        if !spinning.is_empty() && self.rng.chance(1, 16) {
                            spinning[self.rng.below(spinning.len() as u64) as usize]
                        } else {
                            b
                        }
                    }
                    None => self.pick_longest_waiting(&spinning).unwrap_or(me),
                }
            }
            Strategy::Replay => unreachable!(),
        }
    }
    /// nobody is runnable: give the baton to the waiting thread that has not had a look
    /// for the longest time, so that every waiting thread re-checks its condition within
    /// one round (the deadlock detector relies on that)
    fn pick_longest_waiting(&self, spinning: &[usize]) -> Option<usize> {
        spinning.iter().copied().min_by_key(|&i| (self.threads[i].last_run, i))
    }

    fn pick_random(&mut self, me: usize, forced: bool, permille: u32, ready: &[usize], spinning: &[usize], frozen: Option<usize>) -> usize {
        if !forced && !self.rng.chance(permille as u64, 1000) {
            return me;
        }
        let mut r: Vec<usize> = ready.iter().copied().filter(|&i| Some(i) != frozen).collect();
        let mut s: Vec<usize> = spinning.iter().copied().filter(|&i| Some(i) != frozen).collect();
        if r.is_empty() && forced {
            // everybody else is waiting: starving the victim any longer would starve the
            // whole system
            r = ready.to_vec();
            s = spinning.to_vec();
        }
        if r.is_empty() && forced {
            if let Some(t) = self.pick_longest_waiting(&s) {
                return t;
            }
        }
        // runnable threads are preferred over threads that were waiting for something
        let total = r.len() * 8 + s.len();
        if total == 0 {
            // only frozen candidates (or nobody)
            let all: Vec<usize> = ready.iter().chain(spinning.iter()).copied().collect();
            if all.is_empty() || !forced {
                return me;
            }
            return all[self.rng.below(all.len() as u64) as usize];
        }
        let x = self.rng.below(total as u64) as usize;
        if std::env::var_os("VERIF_SCHED_DEBUG").is_some() && self.spins_since_progress > 30 {
            eprintln!("  pick: r {:?} s {:?} x {} frozen {:?}", r, s, x, frozen);
        }
        if x < r.len() * 8 { r[x / 8] } else { s[x - r.len() * 8] }
    }
}

impl Sim {
    fn wait_arrivals<'a>(&'a self, mut g: std::sync::MutexGuard<'a, Inner>) -> std::sync::MutexGuard<'a, Inner> {
        while g.threads.iter().any(|t| t.state == TState::Expected) {
            g = self.cv.wait(g).unwrap();
        }
        g
    }
    fn handoff<'a>(&'a self, mut g: std::sync::MutexGuard<'a, Inner>, me: usize, next: usize, site: u32) -> std::sync::MutexGuard<'a, Inner> {
        if next != me {
            let step = g.step;
            if g.cfg.strategy != Strategy::Replay {
                g.trace.switches.push((step, site, next as u32));
            }
            g.stats.switches += 1;
            g.current = next;
            g.threads[next].cv.notify_one();
            let my_gen = GEN.with(|x| x.get());
            let my_cv = g.threads[me].cv.clone();
            while g.current != me || g.generation != my_gen {
                g = my_cv.wait(g).unwrap();
            }
        }
        if me < g.threads.len() && g.threads[me].state != TState::Finished {
            g.threads[me].state = TState::Ready;
            g.threads[me].last_run = g.step;
        }
        g
    }

    pub fn yield_point(&self, site: u32) {
        let me = TID.with(|t| t.get());
        if me == NONE {
            return;
        }
        let mut g = self.inner.lock().unwrap();
        if !g.active {
            return;
        }
        g = self.wait_arrivals(g);
        g.step += 1;
        g.spins_since_progress = 0;
        if (site as usize) < g.site_counts.len() {
            g.site_counts[site as usize] += 1;
        }
        if g.step > g.cfg.max_steps {
            let m = format!("no termination within {} decision points", g.cfg.max_steps);
            fail(&mut g, "step-budget", m);
        }
        let next = g.choose(me, false, site);
        let _g = self.handoff(g, me, next, site);
    }

    pub fn spin(&self, site: u32) {
        let me = TID.with(|t| t.get());
        if me == NONE {
            std::thread::yield_now();
            return;
        }
        let mut g = self.inner.lock().unwrap();
        if !g.active {
            drop(g);
            std::thread::yield_now();
            return;
        }
        g = self.wait_arrivals(g);
        g.step += 1;
        g.stats.spins += 1;
        g.spins_since_progress += 1;
        if (site as usize) < g.site_counts.len() {
            g.site_counts[site as usize] += 1;
        }
        g.threads[me].state = TState::Spinning;
        g.threads[me].last_site = site;
        let live = g.live() as u64;
        if g.spins_since_progress > 4 * live + 16 {
            // every live thread has been waiting several times in a row without anybody
            // passing a decision point: nobody can make progress. Daemons (idle workers,
            // the collector waiting for work) are expected to wait; a non-daemon thread
            // waiting forever is a deadlock / lost wake-up
            let stuck: Vec<String> = g
                .threads
                .iter()
                .enumerate()
                .filter(|(i, t)| t.state == TState::Spinning && !t.daemon && !(*i == 0 && g.settling))
                .map(|(i, t)| format!("{}:{}", i, t.name))
                .collect();
            if !stuck.is_empty() {
                let m = format!("no thread can make progress; waiting non-daemon threads: {:?} (last site {})", stuck, site);
                fail(&mut g, "deadlock", m);
            }
        }
        if g.step > g.cfg.max_steps {
            let m = format!("no termination within {} decision points", g.cfg.max_steps);
            fail(&mut g, "step-budget", m);
        }
        if std::env::var_os("VERIF_SCHED_DEBUG").is_some() && g.spins_since_progress > 30 {
            let st: Vec<String> = g.threads.iter().enumerate().map(|(i, t)| format!("{}:{:?}", i, t.state)).collect();
            eprintln!("step {} me {} states {:?} strategy {:?}", g.step, me, st, g.cfg.strategy);
        }
        let next = g.choose(me, true, site);
        let st = g.step;
        g.recent.push_back((st, site, me, next, true));
        if g.recent.len() > 60 {
            g.recent.pop_front();
        }
        let _g = self.handoff(g, me, next, site);
    }

    pub fn expect_thread(&self, name: &'static str) {
        let me = TID.with(|t| t.get());
        if me == NONE {
            return;
        }
        let mut g = self.inner.lock().unwrap();
        if !g.active {
            return;
        }
        let daemon = name.starts_with("oxidd mi");
        let priority = g.rng.next() | 1;
        g.threads.push(Slot { name, state: TState::Expected, daemon, priority, last_site: 0, last_run: 0, cv: std::sync::Arc::new(Condvar::new()) });
        g.stats.threads += 1;
        let live = g.live() as u64;
        g.stats.max_live_threads = g.stats.max_live_threads.max(live);
    }

    pub fn thread_start(&self, name: &'static str) {
        let mut g = self.inner.lock().unwrap();
        if !g.active {
            return;
        }
        let Some(idx) = g.threads.iter().position(|t| t.state == TState::Expected && t.name == name) else {
            return; // not announced: runs outside the simulation
        };
        TID.with(|t| t.set(idx));
        let my_gen = g.generation;
        GEN.with(|x| x.set(my_gen));
        g.threads[idx].state = TState::Ready;
        self.cv.notify_all();
        let my_cv = g.threads[idx].cv.clone();
        while g.current != idx || g.generation != my_gen {
            g = my_cv.wait(g).unwrap();
        }
    }

    pub fn thread_exit(&self) {
        let me = TID.with(|t| t.get());
        if me == NONE {
            return;
        }
        TID.with(|t| t.set(NONE));
        let mut g = self.inner.lock().unwrap();
        if !g.active || me >= g.threads.len() {
            return;
        }
        g = self.wait_arrivals(g);
        g.threads[me].state = TState::Finished;
        g.step += 1;
        g.spins_since_progress = 0;
        let next = g.choose(me, true, 0);
        if next != me {
            let step = g.step;
            if g.cfg.strategy != Strategy::Replay {
                g.trace.switches.push((step, 0, next as u32));
            }
            g.current = next;
            g.threads[next].cv.notify_one();
        } else {
            g.current = NONE;
        }
        self.cv.notify_all();
    }

    pub fn buggify(&self, site: u32) -> bool {
        let me = TID.with(|t| t.get());
        if me == NONE {
            return false;
        }
        let mut g = self.inner.lock().unwrap();
        if !g.active || !g.buggify_enabled {
            return false;
        }
        g.buggify_calls += 1;
        let call = g.buggify_calls;
        let fire = if g.cfg.strategy == Strategy::Replay {
            let pos = g.replay_bug_pos;
            if g.trace.buggify_fired.get(pos) == Some(&call) {
                g.replay_bug_pos += 1;
                true
            } else {
                false
            }
        } else {
            let pm = g.cfg.buggify.iter().find(|x| x.0 == site).map(|x| x.1).unwrap_or(0);
            let f = pm > 0 && g.frng.chance(pm as u64, 1000);
            if f {
                g.trace.buggify_fired.push(call);
            }
            f
        };
        if fire {
            g.stats.buggify_fired += 1;
            if (site as usize) < g.site_counts.len() {
                g.site_counts[site as usize] += 1;
            }
        }
        fire
    }

    pub fn knob(&self, id: u32, default: u64) -> u64 {
        let g = self.inner.lock().unwrap();
        if !g.active {
            return default;
        }
        g.cfg.knobs.iter().find(|x| x.0 == id).map(|x| x.1).unwrap_or(default)
    }

    /// Start a simulation; the calling thread becomes simulated thread 0
    pub fn begin(&self, cfg: SchedCfg, replay: Option<Trace>) {
        let mut g = self.inner.lock().unwrap();
        assert!(!g.active, "simulation already running");
        g.threads.clear();
        g.threads.push(Slot { name: "main", state: TState::Ready, daemon: false, priority: u64::MAX, last_site: 0, last_run: 0, cv: std::sync::Arc::new(Condvar::new()) });
        g.current = 0;
        g.step = 0;
        g.spins_since_progress = 0;
        g.rng = Rng::new(cfg.seed, 0, crate::rng::STREAM_SCHEDULE);
        g.frng = Rng::new(cfg.seed, 0, crate::rng::STREAM_FAULTS);
        g.trace = replay.unwrap_or_default();
        g.replay_pos = 0;
        g.replay_bug_pos = 0;
        g.buggify_calls = 0;
        for c in g.site_counts.iter_mut() {
            *c = 0;
        }
        g.failure = None;
        g.stats = SimStats::default();
        g.cfg = cfg;
        g.buggify_enabled = false;
        g.active = true;
        g.generation += 1;
        let my_gen = g.generation;
        GEN.with(|x| x.set(my_gen));
        TID.with(|t| t.set(0));
    }

    /// Run everybody else until all other simulated threads have finished (or, for daemon
    /// threads, wait forever without anybody making progress), then stop. Returns the
    /// number of daemon threads left behind.
    pub fn end(&self) -> (Trace, SimStats, u64) {
        self.inner.lock().unwrap().settling = true;
        let mut leaked = 0;
        loop {
            {
                let g = self.inner.lock().unwrap();
                let unfinished: Vec<&Slot> = g.threads.iter().skip(1).filter(|t| t.state != TState::Finished).collect();
                if unfinished.is_empty() {
                    break;
                }
                let n = unfinished.len() as u64;
                if unfinished.iter().all(|t| t.daemon && t.state == TState::Spinning) && g.spins_since_progress >= 3 * (n + 1) + 2 {
                    leaked = n;
                    break;
                }
            }
            self.spin(0);
        }
        let mut g = self.inner.lock().unwrap();
        g.settling = false;
        g.active = false;
        TID.with(|t| t.set(NONE));
        let mut st = g.stats.clone();
        st.steps = g.step;
        st.site_counts = g.site_counts.iter().enumerate().filter(|(_, c)| **c > 0).map(|(i, c)| (i as u32, *c)).collect();
        (g.trace.clone(), st, leaked)
    }

    /// Hand the baton around until every other thread is waiting (idle workers, the
    /// collector waiting for work) or finished: nobody passes a decision point any more
    pub fn settle(&self) {
        self.inner.lock().unwrap().settling = true;
        loop {
            {
                let g = self.inner.lock().unwrap();
                let others = g.threads.iter().skip(1).filter(|t| t.state != TState::Finished).count() as u64;
                if others == 0 || g.spins_since_progress >= 3 * (others + 1) + 2 {
                    break;
                }
            }
            self.spin(0);
        }
        self.inner.lock().unwrap().settling = false;
    }

    pub fn enable_buggify(&self, on: bool) {
        self.inner.lock().unwrap().buggify_enabled = on;
    }

    /// Spawn a simulated thread running `f`
    pub fn spawn(&self, name: &'static str, f: impl FnOnce() + Send + 'static) -> SimHandle {
        self.expect_thread(name);
        let done = std::sync::Arc::new(std::sync::atomic::AtomicBool::new(false));
        let d2 = done.clone();
        std::thread::Builder::new()
            .name(name.to_string())
            .stack_size(64 * 1024 * 1024)
            .spawn(move || {
                sim().thread_start(name);
                let _ = std::panic::catch_unwind(std::panic::AssertUnwindSafe(f));
                d2.store(true, std::sync::atomic::Ordering::SeqCst);
                sim().thread_exit();
            })
            .expect("spawn");
        SimHandle { done }
    }
    pub fn step(&self) -> u64 {
        self.inner.lock().unwrap().step
    }
}

pub struct SimHandle {
    done: std::sync::Arc<std::sync::atomic::AtomicBool>,
}
impl SimHandle {
    pub fn join(&self) {
        while !self.done.load(std::sync::atomic::Ordering::SeqCst) {
            sim().spin(0);
        }
    }
}

#[cfg(oxidd_verif)]
pub fn install_hooks() {
    use oxidd_core::verif::Hooks;
    static HOOKS: Hooks = Hooks {
        yield_point: |s| sim().yield_point(s),
        spin: |s| sim().spin(s),
        expect_thread: |n| sim().expect_thread(n),
        thread_start: |n| sim().thread_start(n),
        thread_exit: || sim().thread_exit(),
        buggify: |s| sim().buggify(s),
        knob: |i, d| sim().knob(i, d),
    };
    oxidd_core::verif::install(&HOOKS);
}
