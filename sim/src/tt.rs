//! Truth tables as bit sets over 2^n assignments. Assignment index a: bit i of a is the
//! value of variable i. The same bit set read as a family of subsets of the variables is
//! the ZBDD view. Written from the definitions only; no code shared with oxidd.

use serde::{Deserialize, Serialize};

pub const MAX_VARS: u32 = 12;

#[derive(Clone, PartialEq, Eq, Hash, Debug, PartialOrd, Ord, Serialize, Deserialize)]
pub struct TT {
    pub n: u32,
    pub w: Vec<u64>,
}

const VAR_MASK: [u64; 6] = [
    0xaaaa_aaaa_aaaa_aaaa,
    0xcccc_cccc_cccc_cccc,
    0xf0f0_f0f0_f0f0_f0f0,
    0xff00_ff00_ff00_ff00,
    0xffff_0000_ffff_0000,
    0xffff_ffff_0000_0000,
];

#[inline]
fn words(n: u32) -> usize {
    if n <= 6 { 1 } else { 1usize << (n - 6) }
}
#[inline]
fn valid_mask(n: u32) -> u64 {
    if n >= 6 { !0 } else { (1u64 << (1u32 << n)) - 1 }
}

impl TT {
    pub fn zero(n: u32) -> TT {
        assert!(n <= MAX_VARS);
        TT { n, w: vec![0; words(n)] }
    }
    pub fn one(n: u32) -> TT {
        let mut t = TT::zero(n);
        let m = valid_mask(n);
        for x in t.w.iter_mut() {
            *x = m;
        }
        t
    }
    pub fn constant(n: u32, v: bool) -> TT {
        if v { TT::one(n) } else { TT::zero(n) }
    }
    pub fn var(n: u32, v: u32) -> TT {
        assert!(v < n);
        let mut t = TT::zero(n);
        if v < 6 {
            let m = VAR_MASK[v as usize] & valid_mask(n);
            for x in t.w.iter_mut() {
                *x = m;
            }
        } else {
            let stride = 1usize << (v - 6);
            for (i, x) in t.w.iter_mut().enumerate() {
                if i & stride != 0 {
                    *x = !0;
                }
            }
        }
        t
    }
    /// the family {∅} / the function true only at the all-false assignment
    pub fn base(n: u32) -> TT {
        let mut t = TT::zero(n);
        t.w[0] = 1;
        t
    }
    /// from a number (low 2^n bits), n <= 6
    pub fn from_u64(n: u32, bits: u64) -> TT {
        assert!(n <= 6);
        TT { n, w: vec![bits & valid_mask(n)] }
    }
    pub fn random(n: u32, rng: &mut crate::rng::Rng) -> TT {
        let mut t = TT::zero(n);
        let m = valid_mask(n);
        for x in t.w.iter_mut() {
            *x = rng.next() & m;
        }
        t
    }
    #[inline]
    pub fn get(&self, a: u32) -> bool {
        (self.w[(a >> 6) as usize] >> (a & 63)) & 1 == 1
    }
    #[inline]
    pub fn set(&mut self, a: u32, v: bool) {
        let w = &mut self.w[(a >> 6) as usize];
        if v {
            *w |= 1 << (a & 63)
        } else {
            *w &= !(1 << (a & 63))
        }
    }
    pub fn is_zero(&self) -> bool {
        self.w.iter().all(|&x| x == 0)
    }
    pub fn is_one(&self) -> bool {
        let m = valid_mask(self.n);
        self.w.iter().all(|&x| x == m)
    }
    pub fn count(&self) -> u64 {
        self.w.iter().map(|x| x.count_ones() as u64).sum()
    }
    pub fn not(&self) -> TT {
        let m = valid_mask(self.n);
        TT { n: self.n, w: self.w.iter().map(|&x| !x & m).collect() }
    }
    fn zip(&self, o: &TT, f: impl Fn(u64, u64) -> u64) -> TT {
        assert_eq!(self.n, o.n, "truth tables over different variable counts");
        let m = valid_mask(self.n);
        TT { n: self.n, w: self.w.iter().zip(&o.w).map(|(&a, &b)| f(a, b) & m).collect() }
    }
    pub fn and(&self, o: &TT) -> TT {
        self.zip(o, |a, b| a & b)
    }
    pub fn or(&self, o: &TT) -> TT {
        self.zip(o, |a, b| a | b)
    }
    pub fn xor(&self, o: &TT) -> TT {
        self.zip(o, |a, b| a ^ b)
    }
    pub fn andnot(&self, o: &TT) -> TT {
        self.zip(o, |a, b| a & !b)
    }
    pub fn ite(&self, t: &TT, e: &TT) -> TT {
        self.and(t).or(&self.not().and(e))
    }
    /// cofactor with variable v fixed to `val`; the result is still a table over n
    /// variables (and does not depend on v)
    pub fn cofactor(&self, v: u32, val: bool) -> TT {
        assert!(v < self.n);
        let mut r = self.clone();
        if v < 6 {
            let sh = 1u32 << v;
            let m = VAR_MASK[v as usize];
            for x in r.w.iter_mut() {
                if val {
                    let hi = *x & m;
                    *x = hi | (hi >> sh);
                } else {
                    let lo = *x & !m;
                    *x = lo | (lo << sh);
                }
            }
            let vm = valid_mask(self.n);
            for x in r.w.iter_mut() {
                *x &= vm;
            }
        } else {
            let stride = 1usize << (v - 6);
            for i in 0..r.w.len() {
                let src = if val { i | stride } else { i & !stride };
                r.w[i] = self.w[src];
            }
        }
        r
    }
    pub fn depends_on(&self, v: u32) -> bool {
        self.cofactor(v, false) != self.cofactor(v, true)
    }
    pub fn support(&self) -> Vec<u32> {
        (0..self.n).filter(|&v| self.depends_on(v)).collect()
    }
    pub fn exists(&self, v: u32) -> TT {
        self.cofactor(v, false).or(&self.cofactor(v, true))
    }
    pub fn forall(&self, v: u32) -> TT {
        self.cofactor(v, false).and(&self.cofactor(v, true))
    }
    pub fn unique(&self, v: u32) -> TT {
        self.cofactor(v, false).xor(&self.cofactor(v, true))
    }
    /// simultaneous substitution: variable vars[i] := repl[i]
    pub fn compose(&self, vars: &[u32], repl: &[TT]) -> TT {
        let n = self.n;
        let mut out = TT::zero(n);
        for a in 0..(1u32 << n) {
            let mut b = a;
            for (&v, r) in vars.iter().zip(repl) {
                if r.get(a) {
                    b |= 1 << v
                } else {
                    b &= !(1 << v)
                }
            }
            if self.get(b) {
                out.set(a, true);
            }
        }
        out
    }
    /// extend to m >= n variables; the function does not depend on the new variables
    pub fn extend_indep(&self, m: u32) -> TT {
        assert!(m >= self.n && m <= MAX_VARS);
        let mut out = TT::zero(m);
        let mask = (1u32 << self.n) - 1;
        for a in 0..(1u32 << m) {
            if self.get(a & mask) {
                out.set(a, true);
            }
        }
        out
    }
    /// extend to m >= n variables; ZBDD reading: new variables must be 0 (same family)
    pub fn extend_zero(&self, m: u32) -> TT {
        assert!(m >= self.n && m <= MAX_VARS);
        let mut out = TT::zero(m);
        for a in 0..(1u32 << self.n) {
            if self.get(a) {
                out.set(a, true);
            }
        }
        out
    }
    // ---- family (ZBDD) view ----
    /// family of all sets s ∪ {v} for s in self (sets already containing v keep v)
    pub fn fam_add_var(&self, v: u32) -> TT {
        let mut out = TT::zero(self.n);
        for a in 0..(1u32 << self.n) {
            if self.get(a) {
                out.set(a | (1 << v), true);
            }
        }
        out
    }
    /// sets not containing v
    pub fn fam_subset0(&self, v: u32) -> TT {
        self.andnot(&TT::var(self.n, v))
    }
    /// sets containing v, with v removed
    pub fn fam_subset1(&self, v: u32) -> TT {
        let mut out = TT::zero(self.n);
        for a in 0..(1u32 << self.n) {
            if a & (1 << v) != 0 && self.get(a) {
                out.set(a & !(1 << v), true);
            }
        }
        out
    }
    /// toggle v in every set
    pub fn fam_change(&self, v: u32) -> TT {
        let mut out = TT::zero(self.n);
        for a in 0..(1u32 << self.n) {
            if self.get(a) {
                out.set(a ^ (1 << v), true);
            }
        }
        out
    }
    pub fn hex(&self) -> String {
        let mut s = String::new();
        for x in self.w.iter().rev() {
            if self.n >= 6 {
                s.push_str(&format!("{:016x}", x));
            } else {
                let digits = std::cmp::max(1, (1usize << self.n) / 4);
                s.push_str(&format!("{:0width$x}", x, width = digits));
            }
        }
        format!("{}:{}", self.n, s)
    }
    /// cube of literals: pos/neg are bit masks of variables
    pub fn cube(n: u32, pos: u32, neg: u32) -> TT {
        let mut t = TT::one(n);
        for v in 0..n {
            if pos >> v & 1 == 1 {
                t = t.and(&TT::var(n, v));
            } else if neg >> v & 1 == 1 {
                t = t.and(&TT::var(n, v).not());
            }
        }
        t
    }
    pub fn implies(&self, o: &TT) -> bool {
        self.andnot(o).is_zero()
    }
}

#[cfg(test)]
mod tests {
    use super::*;
    #[test]
    fn basic() {
        for n in 1..=8 {
            for v in 0..n {
                let x = TT::var(n, v);
                for a in 0..(1u32 << n) {
                    assert_eq!(x.get(a), a >> v & 1 == 1);
                }
                assert!(x.cofactor(v, true).is_one());
                assert!(x.cofactor(v, false).is_zero());
                assert!(x.not().not() == x);
            }
        }
        let mut rng = crate::rng::Rng::new(1, 2, 3);
        for n in 1..=9u32 {
            for _ in 0..50 {
                let f = TT::random(n, &mut rng);
                for v in 0..n {
                    let c1 = f.cofactor(v, true);
                    let c0 = f.cofactor(v, false);
                    for a in 0..(1u32 << n) {
                        assert_eq!(c1.get(a), f.get(a | (1 << v)));
                        assert_eq!(c0.get(a), f.get(a & !(1 << v)));
                    }
                    let x = TT::var(n, v);
                    assert_eq!(x.ite(&c1, &c0), f);
                    assert_eq!(f.fam_subset0(v).or(&f.fam_subset1(v).fam_add_var(v)), f);
                }
            }
        }
    }
}
