//! Per-property workload profiles for engine E1 (histsim).

use crate::generate::{Class, GenOpts};
use crate::prog::Kind;

pub struct Batch {
    pub name: &'static str,
    pub opts: GenOpts,
    pub share: u32,
}

fn bool_kinds() -> Vec<Kind> {
    vec![Kind::Bdd, Kind::Bcdd, Kind::Zbdd]
}
fn all_kinds() -> Vec<Kind> {
    let mut k = vec![Kind::Bdd, Kind::Bcdd, Kind::Zbdd, Kind::Tdd];
    if cfg!(not(feature = "pointer")) {
        k.push(Kind::MtbddI);
        k.push(Kind::MtbddF);
    }
    k
}
fn mt_kinds() -> Vec<Kind> {
    if cfg!(feature = "pointer") { vec![] } else { vec![Kind::MtbddI, Kind::MtbddF] }
}

/// the batches a check runs; run index r belongs to batch by r mod total share
pub fn batches(check: &str) -> Vec<Batch> {
    use Class::*;
    let b = |name, opts, share| Batch { name, opts, share };
    match check {
        // canonicity after any history: all kinds, many re-derivations, gc/order/add_vars
        "C01" => vec![
            b("all-kinds-history", GenOpts::base(&all_kinds()).emph(Rederive, 12).emph(Gc, 8).emph(Order, 8).emph(DropH, 8).emph(AddVars, 8), 3),
            b("three-vars", { let mut o = GenOpts::base(&bool_kinds()).emph(Rederive, 10).emph(Order, 8); o.max_vars = 3; o.allow_names = false; o }, 2),
        ],
        "C02" => vec![
            b("connectives", { let mut o = GenOpts::base(&bool_kinds()).emph(Binary, 10).emph(Ite, 10).emph(Cof, 10).emph(Observe, 10).emph(Unary, 8).emph(Quant, 0).emph(Subst, 0).emph(Pick, 0).emph(SatCount, 0); o.allow_names = false; o }, 3),
            b("three-vars", { let mut o = GenOpts::base(&bool_kinds()).emph(Binary, 10).emph(Ite, 10).emph(Cof, 8).emph(Order, 10).emph(Observe, 8).emph(Quant, 0).emph(Subst, 0).emph(Pick, 0).emph(SatCount, 0); o.max_vars = 3; o.allow_names = false; o }, 2),
        ],
        "C03" => vec![
            b("all-kinds-structure", { let mut o = GenOpts::base(&all_kinds()).emph(Order, 8).emph(Gc, 8).emph(AddVars, 8).emph(Names, 6).emph(Dddmp, 6); o.allow_dddmp = true; o.big_count = true; o }, 3),
            b("tight", { let mut o = GenOpts::base(&all_kinds()).emph(Order, 6); o.tight_pct = 100; o }, 1),
            b("numeric-terminals", { let mut o = GenOpts::base(&mt_kinds()).emph(Binary, 14).emph(Ite, 8).emph(Gc, 6).emph(Order, 6); o.allow_names = false; o }, 1),
        ],
        "C04" => vec![
            b("quant-subst", { let mut o = GenOpts::base(&[Kind::Bdd, Kind::Bcdd]).emph(Quant, 14).emph(Subst, 14).emph(Gc, 8).emph(Order, 8).emph(Pick, 0).emph(SatCount, 0); o.allow_names = false; o }, 3),
            b("three-vars", { let mut o = GenOpts::base(&[Kind::Bdd, Kind::Bcdd]).emph(Quant, 14).emph(Subst, 14).emph(Order, 10); o.max_vars = 3; o.allow_names = false; o }, 2),
            b("zbdd-restrict", { let mut o = GenOpts::base(&[Kind::Zbdd]).emph(Quant, 20).emph(Gc, 6).emph(AddVars, 6); o.allow_names = false; o }, 1),
        ],
        "C05" => vec![
            b("refcounts", { let mut o = GenOpts::base(&all_kinds()).emph(CloneH, 14).emph(DropH, 14).emph(Gc, 14).emph(Order, 6).emph(Subst, 6).emph(Dddmp, 3); o.allow_dddmp = true; o }, 3),
            b("tight", { let mut o = GenOpts::base(&all_kinds()).emph(CloneH, 10).emph(DropH, 12).emph(Gc, 12); o.tight_pct = 100; o }, 2),
        ],
        "C06" => vec![
            b("cache-history", GenOpts::base(&all_kinds()).emph(Binary, 12).emph(Rederive, 12).emph(Gc, 10).emph(Order, 8).emph(AddVars, 6).emph(Subst, 10).emph(Quant, 8).emph(DropH, 8), 3),
            b("zbdd-cache", { let mut o = GenOpts::base(&[Kind::Zbdd]).emph(ZOps, 14).emph(Rederive, 14).emph(Quant, 12).emph(Gc, 6).emph(Order, 6).emph(AddVars, 8).emph(Names, 8); o }, 1),
        ],
        "C08" => vec![
            b("reorder-chains", { let mut o = GenOpts::base(&all_kinds()).emph(Order, 30).emph(Gc, 8).emph(DropH, 8); o.allow_names = false; o }, 3),
            b("reorder-small", { let mut o = GenOpts::base(&all_kinds()).emph(Order, 30); o.max_vars = 4; o.allow_names = false; o }, 2),
        ],
        "C09" => vec![
            b("zbdd-families", { let mut o = GenOpts::base(&[Kind::Zbdd]).emph(ZOps, 14).emph(AddVars, 10).emph(Order, 8).emph(Observe, 8).emph(Pick, 0).emph(SatCount, 0); o.allow_names = false; o }, 3),
            b("zbdd-three-vars", { let mut o = GenOpts::base(&[Kind::Zbdd]).emph(ZOps, 14).emph(Order, 10); o.max_vars = 3; o.allow_names = false; o }, 2),
        ],
        "C10" => vec![b("mtbdd", { let mut o = GenOpts::base(&mt_kinds()).emph(Binary, 14).emph(Ite, 10).emph(Unary, 8).emph(Gc, 8).emph(Order, 6).emph(Observe, 8); o.allow_names = false; o }, 3),
                      b("mtbdd-tight-terminals", { let mut o = GenOpts::base(&mt_kinds()).emph(Binary, 14).emph(Gc, 10); o.tight_pct = 60; o.allow_names = false; o }, 1)],
        "C11" => vec![b("tdd", { let mut o = GenOpts::base(&[Kind::Tdd]).emph(Binary, 14).emph(Ite, 12).emph(Cof, 10).emph(Unary, 8).emph(Observe, 10).emph(Order, 6); o.allow_names = false; o }, 1)],
        "C12" => vec![b("satcount", { let mut o = GenOpts::base(&bool_kinds()).emph(SatCount, 30).emph(Gc, 10).emph(Order, 10).emph(DropH, 10).emph(AddVars, 6).emph(Pick, 0); o.allow_names = false; o.max_vars = 8; o.nat_ops = true; o }, 1)],
        "C13" => vec![
            b("pick", { let mut o = GenOpts::base(&bool_kinds()).emph(Pick, 24).emph(Leaf, 8).emph(Order, 8).emph(Gc, 4).emph(SatCount, 0); o.allow_names = false; o }, 3),
            b("pick-tight", { let mut o = GenOpts::base(&bool_kinds()).emph(Pick, 40); o.tight_pct = 100; o.allow_names = false; o }, 1),
        ],
        "C16" => vec![b("names", { let mut o = GenOpts::base(&all_kinds()).emph(Names, 40).emph(AddVars, 12).emph(Order, 6).emph(Gc, 4); o.max_vars = 8; o }, 1)],
        // C14 / C15 / C20 have their own drivers but share these generators
        "C14" => vec![b("oom-targets", { let mut o = GenOpts::base(&all_kinds()).emph(Quant, 8).emph(Subst, 8).emph(Pick, 8).emph(Order, 0); o.max_len = 25; o.allow_names = false; o.allow_order = false; o.allow_dddmp = true; o }, 1)],
        "C15" => {
            let mk = |mode: u32| {
                let mut ks = vec![Kind::Bdd, Kind::Bcdd, Kind::Zbdd];
                ks.extend(mt_kinds());
                let mut o = GenOpts::base(&ks).emph(Dddmp, 30).emph(Order, 8).emph(Names, 14).emph(AddVars, 6).emph(Leaf, 8);
                o.allow_dddmp = true;
                o.max_vars = 8;
                o.io_mode = mode;
                o.max_len = 30;
                o
            };
            vec![b("dddmp-fault-free", mk(0), 3), b("dddmp-io-faults", mk(1), 2), b("dddmp-stored-byte-faults", mk(2), 1)]
        }
        "C20" => vec![b("config-equivalence", { let mut o = GenOpts::base(&[Kind::Bdd, Kind::Bcdd, Kind::Zbdd, Kind::Tdd, Kind::MtbddI, Kind::MtbddF]).emph(Order, 8).emph(Gc, 6).emph(Quant, 6).emph(Subst, 6); o.threads = vec![1, 1, 2, 8]; o.allow_names = false; o.ample_only = true; o.big_count = true; o }, 1)],
        _ => vec![],
    }
}

pub fn batch_for_run(bs: &[Batch], run: u64) -> &Batch {
    let total: u32 = bs.iter().map(|b| b.share).sum();
    let mut x = (run % total as u64) as u32;
    for b in bs {
        if x < b.share {
            return b;
        }
        x -= b.share;
    }
    &bs[0]
}
