//! Reference big natural numbers (base 2^32 schoolbook arithmetic) and the differential
//! driver for `oxidd::util::num::Natural` (property C12, second sentence).
//!
//! This part of C12 has no schedule, fault or history in it: it is a seeded differential
//! test of a pure data type and is labelled as such in the evidence.

use crate::exec::RunCtx;
use crate::rng::Rng;
use oxidd_core::util::num::Natural;
use std::cmp::Ordering;

#[derive(Clone, Debug, PartialEq, Eq)]
pub struct Big {
    /// little endian, no leading zero digit; zero = empty
    pub d: Vec<u32>,
}

impl Big {
    pub fn zero() -> Big {
        Big { d: vec![] }
    }
    pub fn from_u128(mut v: u128) -> Big {
        let mut d = vec![];
        while v != 0 {
            d.push(v as u32);
            v >>= 32;
        }
        Big { d }
    }
    pub fn from_u64_digits(ds: &[u64]) -> Big {
        let mut d = vec![];
        for x in ds {
            d.push(*x as u32);
            d.push((*x >> 32) as u32);
        }
        let mut b = Big { d };
        b.norm();
        b
    }
    fn norm(&mut self) {
        while self.d.last() == Some(&0) {
            self.d.pop();
        }
    }
    pub fn is_zero(&self) -> bool {
        self.d.is_empty()
    }
    pub fn add(&self, o: &Big) -> Big {
        let mut d = Vec::with_capacity(self.d.len().max(o.d.len()) + 1);
        let mut carry = 0u64;
        for i in 0..self.d.len().max(o.d.len()) {
            let s = *self.d.get(i).unwrap_or(&0) as u64 + *o.d.get(i).unwrap_or(&0) as u64 + carry;
            d.push(s as u32);
            carry = s >> 32;
        }
        if carry != 0 {
            d.push(carry as u32);
        }
        Big { d }
    }
    pub fn shl(&self, k: u64) -> Big {
        if self.is_zero() {
            return Big::zero();
        }
        let words = (k / 32) as usize;
        let bits = (k % 32) as u32;
        let mut d = vec![0u32; words];
        let mut carry = 0u64;
        for x in &self.d {
            let v = ((*x as u64) << bits) | carry;
            d.push(v as u32);
            carry = v >> 32;
        }
        if carry != 0 {
            d.push(carry as u32);
        }
        Big { d }
    }
    pub fn trailing_zeros(&self) -> u64 {
        let mut n = 0u64;
        for x in &self.d {
            if *x == 0 {
                n += 32;
            } else {
                return n + x.trailing_zeros() as u64;
            }
        }
        n
    }
    /// exact right shift (None if a 1-bit would be lost)
    pub fn shr_exact(&self, k: u64) -> Option<Big> {
        if self.is_zero() {
            return Some(Big::zero());
        }
        if self.trailing_zeros() < k {
            return None;
        }
        let words = (k / 32) as usize;
        let bits = (k % 32) as u32;
        let mut d = vec![];
        for i in words..self.d.len() {
            let lo = self.d[i] as u64 >> bits;
            let hi = if bits == 0 { 0 } else { (*self.d.get(i + 1).unwrap_or(&0) as u64) << (32 - bits) };
            d.push((lo | hi) as u32);
        }
        let mut b = Big { d };
        b.norm();
        Some(b)
    }
    pub fn bit_width(&self) -> u128 {
        match self.d.last() {
            None => 0,
            Some(x) => (self.d.len() as u128 - 1) * 32 + (32 - x.leading_zeros()) as u128,
        }
    }
    pub fn cmp(&self, o: &Big) -> Ordering {
        if self.d.len() != o.d.len() {
            return self.d.len().cmp(&o.d.len());
        }
        for i in (0..self.d.len()).rev() {
            if self.d[i] != o.d[i] {
                return self.d[i].cmp(&o.d[i]);
            }
        }
        Ordering::Equal
    }
    pub fn bit(&self, i: u128) -> bool {
        let w = (i / 32) as usize;
        w < self.d.len() && (self.d[w] >> (i % 32)) & 1 == 1
    }
    pub fn to_dec(&self) -> String {
        if self.is_zero() {
            return "0".into();
        }
        let mut d = self.d.clone();
        let mut chunks: Vec<u32> = vec![];
        while !d.is_empty() {
            let mut rem = 0u64;
            for x in d.iter_mut().rev() {
                let cur = (rem << 32) | *x as u64;
                *x = (cur / 1_000_000_000) as u32;
                rem = cur % 1_000_000_000;
            }
            chunks.push(rem as u32);
            while d.last() == Some(&0) {
                d.pop();
            }
        }
        let mut s = format!("{}", chunks.last().unwrap());
        for c in chunks.iter().rev().skip(1) {
            s.push_str(&format!("{:09}", c));
        }
        s
    }
    /// digits in base 2^bits (bits in 1, 3, 4), most significant first
    pub fn to_pow2(&self, bits: u32, upper: bool) -> String {
        if self.is_zero() {
            return "0".into();
        }
        let bw = self.bit_width();
        let n = bw.div_ceil(bits as u128);
        let mut s = String::new();
        for i in (0..n).rev() {
            let mut v = 0u32;
            for b in (0..bits).rev() {
                v = (v << 1) | self.bit(i * bits as u128 + b as u128) as u32;
            }
            let c = std::char::from_digit(v, 16).unwrap();
            s.push(if upper { c.to_ascii_uppercase() } else { c });
        }
        s
    }
    pub fn to_u128(&self) -> Option<u128> {
        if self.bit_width() > 128 {
            return None;
        }
        let mut v = 0u128;
        for (i, x) in self.d.iter().enumerate() {
            v |= (*x as u128) << (32 * i);
        }
        Some(v)
    }
    /// IEEE double nearest to the number, ties to even, +inf beyond the range
    pub fn to_f64(&self) -> f64 {
        let bw = self.bit_width();
        if bw == 0 {
            return 0.0;
        }
        if bw > 1024 {
            return f64::INFINITY;
        }
        if bw <= 53 {
            return self.to_u128().unwrap() as f64;
        }
        // top 53 bits, round bit, sticky
        let mut top = 0u64;
        for i in 0..53u128 {
            top = (top << 1) | self.bit(bw - 1 - i) as u64;
        }
        let round = self.bit(bw - 54);
        let sticky = self.trailing_zeros() < (bw - 54) as u64;
        let mut exp = (bw - 53) as i32; // value = top * 2^exp
        if round && (sticky || top & 1 == 1) {
            top += 1;
            if top == 1 << 53 {
                top >>= 1;
                exp += 1;
            }
        }
        if exp + 53 > 1024 {
            return f64::INFINITY;
        }
        (top as f64) * 2f64.powi(exp)
    }
    pub fn to_u64_digits(&self) -> Vec<u64> {
        let mut out = vec![];
        for c in self.d.chunks(2) {
            out.push(c[0] as u64 | (*c.get(1).unwrap_or(&0) as u64) << 32);
        }
        out
    }
}

/// reference value: None = the documented error value (NaN)
type Ref = Option<Big>;

const EXPS: [u64; 22] = [0, 1, 2, 31, 32, 33, 62, 63, 64, 65, 66, 126, 127, 128, 129, 191, 192, 193, 255, 256, 257, 511];

fn gen_value(rng: &mut Rng) -> (Natural, Big) {
    match rng.below(6) {
        0 => {
            // 2^k + delta
            let k = *rng.pick(&EXPS);
            let p = Big::from_u128(1).shl(k);
            let b = match rng.below(3) {
                0 => p,
                1 => p.add(&Big::from_u128(1)),
                _ => {
                    // 2^k - 1 = sum of lower powers
                    let mut s = Big::zero();
                    for i in 0..k {
                        s = s.add(&Big::from_u128(1).shl(i));
                    }
                    s
                }
            };
            (Natural::from_le_digits(&b.to_u64_digits()), b)
        }
        1 => {
            // sparse: a few powers of two, built through the type's own operators
            let mut n = Natural::ZERO;
            let mut b = Big::zero();
            for _ in 0..rng.range(1, 4) {
                let k = if rng.bool() { *rng.pick(&EXPS) } else { rng.below(520) };
                if !b.bit(k as u128) {
                    n = n + (Natural::from(1u8) << k);
                    b = b.add(&Big::from_u128(1).shl(k));
                }
            }
            (n, b)
        }
        2 => {
            // random digits with zero and all-ones digits mixed in
            let len = rng.range(1, 8) as usize;
            let ds: Vec<u64> = (0..len)
                .map(|_| match rng.below(5) {
                    0 => 0,
                    1 => u64::MAX,
                    2 => 1,
                    _ => rng.next(),
                })
                .collect();
            let b = Big::from_u64_digits(&ds);
            (Natural::from_le_digits(&ds), b)
        }
        3 => {
            let v = rng.next() as u128 * rng.next() as u128 >> rng.below(128);
            (Natural::from(v), Big::from_u128(v))
        }
        4 => {
            let v = rng.next() >> rng.below(64);
            (Natural::from(v), Big::from_u128(v as u128))
        }
        _ => {
            // small odd mantissa with an exponent
            let m = rng.below(16) as u128;
            let k = if rng.bool() { *rng.pick(&EXPS) } else { rng.below(300) };
            (Natural::from(m as u64) << k, Big::from_u128(m).shl(k))
        }
    }
}

fn observe(n: &Natural, r: &Ref, what: &str, ctx: &mut RunCtx) -> bool {
    let fail = |ctx: &mut RunCtx, msg: String| {
        ctx.violate(&["C12"], "natural", format!("{}: {}", what, msg));
        false
    };
    match r {
        None => {
            if !n.is_nan() {
                return fail(ctx, format!("expected the error value, got {}", n));
            }
            if format!("{}", n) != "?" {
                return fail(ctx, format!("the error value prints as {:?}", format!("{}", n)));
            }
            true
        }
        Some(b) => {
            if n.is_nan() {
                return fail(ctx, format!("got the error value, expected {}", b.to_dec()));
            }
            // representation: mantissa odd (or zero), value = mantissa * 2^exp
            let m = Big::from_u64_digits(n.mantissa());
            if b.is_zero() {
                if !m.is_zero() || n.exp() != 0 {
                    return fail(ctx, format!("zero is represented as mantissa {:?} exponent {}", n.mantissa(), n.exp()));
                }
            } else {
                if m.is_zero() || !m.bit(0) {
                    return fail(ctx, format!("mantissa {:?} is not odd", n.mantissa()));
                }
                if n.mantissa().last() == Some(&0) {
                    return fail(ctx, "mantissa() has a leading zero digit".into());
                }
                if n.exp() > 1 << 20 || &m.shl(n.exp()) != b {
                    return fail(ctx, format!("mantissa {:x?} * 2^{} is not {}", n.mantissa(), n.exp(), b.to_pow2(4, false)));
                }
            }
            if n.bit_width() != b.bit_width() {
                return fail(ctx, format!("bit_width {} expected {}", n.bit_width(), b.bit_width()));
            }
            let dec = format!("{}", n);
            if dec != b.to_dec() {
                return fail(ctx, format!("Display gives {}, expected {}", dec, b.to_dec()));
            }
            let checks = [
                (format!("{:x}", n), b.to_pow2(4, false), "LowerHex"),
                (format!("{:X}", n), b.to_pow2(4, true), "UpperHex"),
                (format!("{:b}", n), b.to_pow2(1, false), "Binary"),
                (format!("{:o}", n), b.to_pow2(3, false), "Octal"),
                (format!("{:#x}", n), format!("0x{}", b.to_pow2(4, false)), "LowerHex #"),
            ];
            for (got, exp, name) in checks {
                if got != exp {
                    return fail(ctx, format!("{} gives {}, expected {}", name, got, exp));
                }
            }
            // width, fill, alignment, sign and zero flags as for the primitive integers
            let hex = b.to_pow2(4, false);
            let bin = b.to_pow2(1, false);
            let oct = b.to_pow2(3, false);
            let w = hex.len() + 3;
            let wb = bin.len() + 2;
            let zero_pad = |prefix: &str, digits: &str, width: usize| {
                let body = prefix.len() + digits.len();
                format!("{}{}{}", prefix, "0".repeat(width.saturating_sub(body)), digits)
            };
            let flagged = [
                (format!("{:>w$x}", n, w = w), format!("{:>w$}", hex, w = w), "{:>w$x}"),
                (format!("{:<w$x}", n, w = w), format!("{:<w$}", hex, w = w), "{:<w$x}"),
                (format!("{:*^w$x}", n, w = w), format!("{:*^w$}", hex, w = w), "{:*^w$x}"),
                (format!("{:w$b}", n, w = wb), format!("{:>w$}", bin, w = wb), "{:w$b}"),
                (format!("{:w$o}", n, w = oct.len() + 1), format!("{:>w$}", oct, w = oct.len() + 1), "{:w$o}"),
                (format!("{:0w$x}", n, w = w), zero_pad("", &hex, w), "{:0w$x}"),
                (format!("{:#0w$x}", n, w = w + 2), zero_pad("0x", &hex, w + 2), "{:#0w$x}"),
                (format!("{:#w$b}", n, w = wb + 2), format!("{:>w$}", format!("0b{}", bin), w = wb + 2), "{:#w$b}"),
                (format!("{:+x}", n), format!("+{}", hex), "{:+x}"),
                (format!("{:1x}", n), hex.clone(), "{:1x}"),
            ];
            for (got, exp, name) in flagged {
                if got != exp {
                    return fail(ctx, format!("format {} gives {:?}, expected {:?}", name, got, exp));
                }
            }
            let u128v = b.to_u128();
            match (u128::try_from(n), u128v) {
                (Ok(a), Some(e)) if a == e => {}
                (Err(_), None) => {}
                (g, e) => return fail(ctx, format!("u128::try_from gives {:?}, expected {:?}", g.ok(), e)),
            }
            let u64v = u128v.and_then(|v| u64::try_from(v).ok());
            match (u64::try_from(n), u64v) {
                (Ok(a), Some(e)) if a == e => {}
                (Err(_), None) => {}
                (g, e) => return fail(ctx, format!("u64::try_from gives {:?}, expected {:?}", g.ok(), e)),
            }
            let f = f64::from(n);
            let ef = b.to_f64();
            if f.to_bits() != ef.to_bits() {
                return fail(ctx, format!("f64::from gives {:e} ({:#x}), expected {:e} ({:#x}) for {}", f, f.to_bits(), ef, ef.to_bits(), b.to_pow2(4, false)));
            }
            true
        }
    }
}

fn hash_of(n: &Natural) -> u64 {
    use std::hash::{Hash, Hasher};
    let mut h = rustc_hash::FxHasher::default();
    n.hash(&mut h);
    h.finish()
}

/// one `NatOps` instruction: `count` seeded operations on a pool of numbers
pub fn nat_ops(seed: u64, count: u8, ctx: &mut RunCtx) {
    let mut rng = Rng::new(seed, 0, crate::rng::STREAM_IO);
    let mut pool: Vec<(Natural, Ref)> = vec![];
    for i in 0..5 {
        let (n, b) = gen_value(&mut rng);
        if !observe(&n, &Some(b.clone()), &format!("operand #{} ({})", i, b.to_pow2(4, false)), ctx) {
            return;
        }
        pool.push((n, Some(b)));
    }
    let show = |r: &Ref| match r {
        None => "NaN".to_string(),
        Some(b) => format!("0x{}", b.to_pow2(4, false)),
    };
    for _ in 0..count {
        ctx.stats.bump("probe.natural_op");
        let i = rng.below(pool.len() as u64) as usize;
        let j = rng.below(pool.len() as u64) as usize;
        let dst = rng.below(pool.len() as u64) as usize;
        let (res, exp, what): (Natural, Ref, String) = match rng.below(10) {
            0..=3 => {
                let r = pool[i].0.clone() + pool[j].0.clone();
                let e = match (&pool[i].1, &pool[j].1) {
                    (Some(a), Some(b)) => Some(a.add(b)),
                    // 0 + NaN: the sum of the error value with anything is the error value
                    _ => None,
                };
                (r, e, format!("{} + {}", show(&pool[i].1), show(&pool[j].1)))
            }
            4 | 5 => {
                let k = match rng.below(4) {
                    0 => *rng.pick(&EXPS),
                    1 => rng.below(200),
                    2 => 64 * rng.below(5),
                    _ => rng.below(8),
                };
                let r = if rng.bool() { pool[i].0.clone() << k } else { pool[i].0.clone() << (k as u32) };
                let e = pool[i].1.as_ref().map(|a| a.shl(k));
                if e.as_ref().is_some_and(|b| b.bit_width() > 3000) {
                    continue;
                }
                (r, e, format!("{} << {}", show(&pool[i].1), k))
            }
            6 | 7 => {
                let tz = pool[i].1.as_ref().map(|b| b.trailing_zeros()).unwrap_or(0);
                let k = match rng.below(4) {
                    0 => tz,
                    1 => tz + 1,
                    2 => tz.saturating_sub(rng.below(3)),
                    _ => rng.below(70),
                };
                let r = if rng.bool() { pool[i].0.clone() >> k } else { pool[i].0.clone() >> (k as u32) };
                let e = pool[i].1.as_ref().and_then(|a| a.shr_exact(k));
                (r, e, format!("{} >> {}", show(&pool[i].1), k))
            }
            8 => {
                // exponent overflow: documented error value
                match &pool[i].1 {
                    Some(b) if !b.is_zero() => {
                        let r = pool[i].0.clone() << (u64::MAX - rng.below(1 + pool[i].0.exp().min(5)));
                        (r, None, format!("{} << (close to u64::MAX)", show(&pool[i].1)))
                    }
                    _ => continue,
                }
            }
            _ => {
                let (n, b) = gen_value(&mut rng);
                let w = format!("fresh operand {}", b.to_pow2(4, false));
                (n, Some(b), w)
            }
        };
        if !observe(&res, &exp, &what, ctx) {
            return;
        }
        // comparisons of the result with everything in the pool
        for (k, (n, r)) in pool.iter().enumerate() {
            let got = res.partial_cmp(n);
            let want = match (&exp, r) {
                (Some(a), Some(b)) => Some(a.cmp(b)),
                _ => None,
            };
            if got != want {
                ctx.violate(&["C12"], "natural", format!("{}: partial_cmp with pool[{}] = {} gives {:?}, expected {:?}", what, k, show(r), got, want));
                return;
            }
            let rev = n.partial_cmp(&res);
            if rev != want.map(|o| o.reverse()) {
                ctx.violate(&["C12"], "natural", format!("{}: reversed partial_cmp with pool[{}] = {} gives {:?}", what, k, show(r), rev));
                return;
            }
            if let (Some(a), Some(b)) = (&exp, r) {
                let eq = res == *n;
                if eq != (a == b) {
                    ctx.violate(&["C12"], "natural", format!("{}: == with pool[{}] = {} gives {}", what, k, show(r), eq));
                    return;
                }
                if eq && hash_of(&res) != hash_of(n) {
                    ctx.violate(&["C12"], "natural", format!("{}: equal to pool[{}] but the hashes differ", what, k));
                    return;
                }
            }
        }
        let c = res.clone();
        if exp.is_some() && (c != res || hash_of(&c) != hash_of(&res)) {
            ctx.violate(&["C12"], "natural", format!("{}: the clone differs from the original", what));
            return;
        }
        let mut c2 = pool[dst].0.clone();
        c2.clone_from(&res);
        if exp.is_some() && c2 != res {
            ctx.violate(&["C12"], "natural", format!("{}: clone_from gives a different number", what));
            return;
        }
        ctx.obs.u64(exp.as_ref().map(|b| b.bit_width() as u64).unwrap_or(u64::MAX));
        pool[dst] = (res, exp);
    }
}
