//! Deterministic simulation harness for OxiDD (see /verif/DESIGN.md)
pub mod big;
pub mod checks;
pub mod exec;
pub mod generate;
pub mod run;
pub mod sched;
pub mod kinds;
pub mod model;
pub mod num;
pub mod prog;
pub mod rng;
pub mod tt;
pub mod tvl;
