//! Three-valued value-table model for TDDs: tables over 3^n assignments.
//! Internal value code: 0 = false, 1 = unknown, 2 = true (so Kleene and/or are min/max and
//! Łukasiewicz implication is min(2, 2 - a + b)).
//! Assignment index: sum a_i * 3^i with the same value code per variable.

use crate::prog::BinOp;
use serde::{Deserialize, Serialize};
use std::collections::HashMap;

pub const F: u8 = 0;
pub const U: u8 = 1;
pub const T: u8 = 2;

#[derive(Clone, PartialEq, Eq, Hash, Debug, Serialize, Deserialize)]
pub struct TvlTab {
    pub n: u32,
    pub v: Vec<u8>,
}

pub fn pow3(n: u32) -> usize {
    3usize.pow(n)
}

pub fn tvl_not(a: u8) -> u8 {
    2 - a
}
pub fn tvl_bin(op: BinOp, a: u8, b: u8) -> u8 {
    let imp = |a: u8, b: u8| std::cmp::min(2, 2 + b as i32 - a as i32) as u8;
    let equiv = |a: u8, b: u8| (2 - (a as i32 - b as i32).abs()) as u8;
    match op {
        BinOp::And => a.min(b),
        BinOp::Or => a.max(b),
        BinOp::Nand => tvl_not(a.min(b)),
        BinOp::Nor => tvl_not(a.max(b)),
        BinOp::Equiv => equiv(a, b),
        BinOp::Xor => tvl_not(equiv(a, b)),
        BinOp::Imp => imp(a, b),
        BinOp::ImpStrict => tvl_not(imp(b, a)),
    }
}
/// documented ite
pub fn tvl_ite(a: u8, b: u8, c: u8) -> u8 {
    if b == c || a == T {
        b
    } else if a == F {
        c
    } else if a == b {
        a.max(c)
    } else if a == c {
        a.min(b)
    } else {
        U
    }
}

impl TvlTab {
    /// val in the instruction encoding: 0 = false, 1 = true, 2 = unknown
    pub fn constant(n: u32, val: u8) -> TvlTab {
        let c = match val {
            0 => F,
            1 => T,
            _ => U,
        };
        TvlTab { n, v: vec![c; pow3(n)] }
    }
    pub fn var(n: u32, v: u32) -> TvlTab {
        let p = pow3(v);
        TvlTab { n, v: (0..pow3(n)).map(|a| ((a / p) % 3) as u8).collect() }
    }
    pub fn not(&self) -> TvlTab {
        TvlTab { n: self.n, v: self.v.iter().map(|&a| tvl_not(a)).collect() }
    }
    pub fn bin(&self, op: BinOp, o: &TvlTab) -> TvlTab {
        assert_eq!(self.n, o.n);
        TvlTab { n: self.n, v: self.v.iter().zip(&o.v).map(|(&a, &b)| tvl_bin(op, a, b)).collect() }
    }
    pub fn ite(&self, t: &TvlTab, e: &TvlTab) -> TvlTab {
        TvlTab { n: self.n, v: (0..self.v.len()).map(|i| tvl_ite(self.v[i], t.v[i], e.v[i])).collect() }
    }
    /// cofactor w.r.t. variable v set to value code val (0 = false, 1 = unknown, 2 = true)
    pub fn cofactor(&self, v: u32, val: u8) -> TvlTab {
        let p = pow3(v);
        TvlTab {
            n: self.n,
            v: (0..self.v.len())
                .map(|a| {
                    let cur = (a / p) % 3;
                    self.v[a - cur * p + val as usize * p]
                })
                .collect(),
        }
    }
    pub fn depends_on(&self, v: u32) -> bool {
        let c0 = self.cofactor(v, 0);
        c0 != self.cofactor(v, 1) || c0 != self.cofactor(v, 2)
    }
    pub fn is_const(&self) -> bool {
        self.v.iter().all(|x| *x == self.v[0])
    }
    pub fn extend(&self, m: u32) -> TvlTab {
        let k = pow3(self.n);
        TvlTab { n: m, v: (0..pow3(m)).map(|a| self.v[a % k]).collect() }
    }
    pub fn canon_size(&self, order: &[u32]) -> usize {
        let mut seen: HashMap<TvlTab, ()> = HashMap::new();
        fn rec(t: &TvlTab, order: &[u32], l: usize, seen: &mut HashMap<TvlTab, ()>) {
            if seen.contains_key(t) {
                return;
            }
            seen.insert(t.clone(), ());
            if t.is_const() {
                return;
            }
            let mut l = l;
            while !t.depends_on(order[l]) {
                l += 1;
            }
            let v = order[l];
            for val in [T, U, F] {
                rec(&t.cofactor(v, val), order, l + 1, seen);
            }
        }
        rec(self, order, 0, &mut seen);
        seen.len()
    }
    pub fn short(&self) -> String {
        let s: String = self.v.iter().map(|&x| ['f', 'u', 't'][x as usize]).collect();
        format!("{}:{}", self.n, s)
    }
}

#[cfg(test)]
mod tests {
    use super::*;
    #[test]
    fn tables() {
        assert_eq!(tvl_bin(BinOp::Imp, U, U), T);
        assert_eq!(tvl_bin(BinOp::Imp, T, U), U);
        assert_eq!(tvl_bin(BinOp::Imp, U, F), U);
        assert_eq!(tvl_bin(BinOp::Equiv, U, U), T);
        assert_eq!(tvl_bin(BinOp::Xor, U, U), F);
        assert_eq!(tvl_bin(BinOp::ImpStrict, F, T), T);
        assert_eq!(tvl_bin(BinOp::ImpStrict, U, U), F);
        assert_eq!(tvl_ite(U, U, T), T);
        assert_eq!(tvl_ite(U, T, U), U);
        assert_eq!(tvl_ite(U, F, U), F);
        assert_eq!(tvl_ite(U, T, F), U);
        let x = TvlTab::var(2, 1);
        assert_eq!(x.cofactor(1, T), TvlTab::constant(2, 1));
        assert_eq!(x.cofactor(1, U), TvlTab::constant(2, 2));
        assert!(x.depends_on(1) && !x.depends_on(0));
    }
}
