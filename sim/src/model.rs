//! Reference models (the oracles). Small, independent, written from the documentation.

use crate::num::{NumTab, num_bin};
use crate::prog::*;
use crate::tt::TT;
use crate::tvl::TvlTab;
use serde::{Deserialize, Serialize};
use std::collections::HashMap;

/// Denotation of a handle
#[derive(Clone, PartialEq, Eq, Hash, Debug, Serialize, Deserialize)]
pub enum Den {
    B(TT),
    N(NumTab),
    T(TvlTab),
}

impl Den {
    pub fn b(&self) -> &TT {
        match self {
            Den::B(t) => t,
            _ => panic!("not a boolean denotation"),
        }
    }
    pub fn n(&self) -> &NumTab {
        match self {
            Den::N(t) => t,
            _ => panic!("not a numeric denotation"),
        }
    }
    pub fn t(&self) -> &TvlTab {
        match self {
            Den::T(t) => t,
            _ => panic!("not a tvl denotation"),
        }
    }
    pub fn digest(&self) -> u64 {
        let mut f = crate::rng::Fnv::default();
        match self {
            Den::B(t) => {
                f.u64(t.n as u64);
                for &w in &t.w {
                    f.u64(w)
                }
            }
            Den::N(t) => t.digest_into(&mut f),
            Den::T(t) => {
                f.u64(t.n as u64);
                f.bytes(&t.v)
            }
        }
        f.0
    }
    pub fn short(&self) -> String {
        match self {
            Den::B(t) => t.hex(),
            Den::N(t) => t.short(),
            Den::T(t) => t.short(),
        }
    }
    /// adapt to a larger variable count (after add_vars)
    pub fn extend(&self, kind: Kind, m: u32) -> Den {
        match self {
            Den::B(t) => Den::B(if kind == Kind::Zbdd { t.extend_zero(m) } else { t.extend_indep(m) }),
            Den::N(t) => Den::N(t.extend(m)),
            Den::T(t) => Den::T(t.extend(m)),
        }
    }
}

pub fn bin_tt(op: BinOp, a: &TT, b: &TT) -> TT {
    match op {
        BinOp::And => a.and(b),
        BinOp::Or => a.or(b),
        BinOp::Nand => a.and(b).not(),
        BinOp::Nor => a.or(b).not(),
        BinOp::Xor => a.xor(b),
        BinOp::Equiv => a.xor(b).not(),
        BinOp::Imp => a.not().or(b),
        // documented: f < g, i.e. ¬f ∧ g
        BinOp::ImpStrict => a.not().and(b),
    }
}

pub fn quant_tt(q: Quant, f: &TT, vars: u32) -> TT {
    let mut r = f.clone();
    for v in 0..f.n {
        if vars >> v & 1 == 1 {
            r = match q {
                Quant::Forall => r.forall(v),
                Quant::Exists => r.exists(v),
                Quant::Unique => r.unique(v),
            };
        }
    }
    r
}

#[derive(Clone, Debug, PartialEq, Eq)]
pub struct NameErr {
    pub name: String,
    pub present_var: u32,
    pub added: std::ops::Range<u32>,
}

#[derive(Clone, Debug)]
pub struct Model {
    pub kind: Kind,
    pub n: u32,
    /// level -> var
    pub order: Vec<u32>,
    pub names: Vec<String>,
    pub regs: Vec<Option<Den>>,
    pub substs: Vec<Option<Vec<(u32, Den)>>>,
}

impl Model {
    pub fn new(kind: Kind, n: u32) -> Model {
        Model {
            kind,
            n,
            order: (0..n).collect(),
            names: vec![String::new(); n as usize],
            regs: vec![None; NREGS],
            substs: vec![None; NSUBST],
        }
    }
    pub fn reg(&self, r: Reg) -> Option<&Den> {
        self.regs.get(r as usize).and_then(|x| x.as_ref())
    }
    pub fn var_to_level(&self, v: u32) -> u32 {
        self.order.iter().position(|&x| x == v).unwrap() as u32
    }
    pub fn live_regs(&self) -> Vec<Reg> {
        (0..NREGS as u8).filter(|&r| self.regs[r as usize].is_some()).collect()
    }

    // ---- variables and names -------------------------------------------------
    pub fn add_vars(&mut self, k: u32) {
        let m = self.n + k;
        for r in self.regs.iter_mut() {
            if let Some(d) = r {
                *d = d.extend(self.kind, m);
            }
        }
        for s in self.substs.iter_mut().flatten() {
            for (_, d) in s.iter_mut() {
                *d = d.extend(self.kind, m);
            }
        }
        for v in self.n..m {
            self.order.push(v);
            self.names.push(String::new());
        }
        self.n = m;
    }
    /// documented behaviour of add_named_vars: names are added one by one; the first
    /// non-empty duplicate stops the batch with an error; variables added before stay.
    /// `limit`: the iterator stops (panics) before yielding item `limit`.
    pub fn add_named(&mut self, names: &[String], limit: Option<usize>) -> Result<std::ops::Range<u32>, NameErr> {
        let pre = self.n;
        let mut added = 0u32;
        let mut res = Ok(());
        for (i, name) in names.iter().enumerate() {
            if Some(i) == limit {
                break;
            }
            if !name.is_empty() {
                if let Some(p) = self.name_to_var(name) {
                    res = Err(NameErr { name: name.clone(), present_var: p, added: pre..pre + added });
                    break;
                }
            }
            // add one variable
            self.add_vars(1);
            let v = self.n - 1;
            self.names[v as usize] = name.clone();
            added += 1;
        }
        res.map(|()| pre..pre + added)
    }
    pub fn set_name(&mut self, v: u32, name: &str) -> Result<(), NameErr> {
        if !name.is_empty() {
            if let Some(p) = self.name_to_var(name) {
                if p != v {
                    return Err(NameErr { name: name.to_string(), present_var: p, added: self.n..self.n });
                }
                return Ok(());
            }
        }
        self.names[v as usize] = name.to_string();
        Ok(())
    }
    pub fn name_to_var(&self, name: &str) -> Option<u32> {
        if name.is_empty() {
            return None;
        }
        self.names.iter().position(|x| x == name).map(|x| x as u32)
    }
    pub fn num_named(&self) -> u32 {
        self.names.iter().filter(|x| !x.is_empty()).count() as u32
    }

    // ---- reordering ----------------------------------------------------------
    /// Validate an observed new order against a request; returns Err(description) if the
    /// observed order violates the documented contract.
    pub fn check_order(&self, request: &[u32], observed: &[u32]) -> Result<(), String> {
        let n = self.n as usize;
        if observed.len() != n {
            return Err(format!("order has {} levels, expected {}", observed.len(), n));
        }
        let mut seen = vec![false; n];
        for &v in observed {
            if v as usize >= n || seen[v as usize] {
                return Err(format!("level_to_var is not a permutation: {:?}", observed));
            }
            seen[v as usize] = true;
        }
        if request.len() <= 1 {
            if observed != &self.order[..] {
                return Err(format!("order changed by a request of length {}", request.len()));
            }
            return Ok(());
        }
        let pos = |ord: &[u32], v: u32| ord.iter().position(|&x| x == v).unwrap();
        for w in request.windows(2) {
            if pos(observed, w[0]) >= pos(observed, w[1]) {
                return Err(format!(
                    "requested {} above {}, observed order {:?}",
                    w[0], w[1], observed
                ));
            }
        }
        // minimal number of adjacent swaps = minimal inversion distance among all
        // completions (brute force, n <= 8)
        if n <= 8 {
            let d_obs = inversions(&self.order, observed);
            let d_min = min_completion_distance(&self.order, request);
            if d_obs != d_min {
                return Err(format!(
                    "unnamed variables not placed minimally: {} adjacent swaps from {:?} to {:?}, minimum {}",
                    d_obs, self.order, observed, d_min
                ));
            }
        }
        Ok(())
    }

    // ---- canonical sizes -------------------------------------------------------
    /// number of nodes (inner + terminals) of the unique reduced diagram of `d` under the
    /// current order, by this kind's rules
    pub fn canon_size(&self, d: &Den) -> usize {
        match (self.kind, d) {
            (Kind::Bdd, Den::B(t)) => canon_bdd(t, &self.order),
            (Kind::Bcdd, Den::B(t)) => canon_bcdd(t, &self.order),
            (Kind::Zbdd, Den::B(t)) => canon_zbdd(t, &self.order),
            (Kind::MtbddI | Kind::MtbddF, Den::N(t)) => t.canon_size(&self.order),
            (Kind::Tdd, Den::T(t)) => t.canon_size(&self.order),
            _ => panic!("kind/denotation mismatch"),
        }
    }
    /// Boolean kinds: number of INNER nodes a manager holds after a collection when exactly
    /// `roots` are referenced from outside (the union of their reduced diagrams, plus the
    /// ZBDD tautology chain the manager keeps for itself)
    pub fn expected_inner_nodes(&self, roots: &[&Den]) -> usize {
        let mut seen: HashMap<TT, ()> = HashMap::new();
        let n = self.n;
        match self.kind {
            Kind::Bdd => {
                for r in roots {
                    canon_bdd_into(r.b(), &self.order, &mut seen);
                }
                seen.keys().filter(|t| !(t.is_zero() || t.is_one())).count()
            }
            Kind::Bcdd => {
                for r in roots {
                    canon_bcdd_into(r.b(), &self.order, &mut seen);
                }
                seen.keys().filter(|t| !t.is_zero()).count()
            }
            Kind::Zbdd => {
                let base = TT::base(n);
                for r in roots {
                    canon_zbdd_into(r.b(), &self.order, &mut seen);
                }
                // tautology chain: for every level l the family of all subsets of the
                // variables at levels >= l
                let mut fam = base.clone();
                for &v in self.order.iter().rev() {
                    fam = fam.or(&fam.fam_add_var(v));
                    canon_zbdd_into(&fam, &self.order, &mut seen);
                }
                seen.keys().filter(|t| !(t.is_zero() || **t == base)).count()
            }
            _ => panic!("expected_inner_nodes: Boolean kinds only"),
        }
    }
    /// top variable (first in order on which the function depends in the kind's sense);
    /// None for terminals
    pub fn top_var_bool(&self, t: &TT) -> Option<u32> {
        match self.kind {
            Kind::Zbdd => {
                // the root node's variable: first level l such that some set contains
                // order[l] (all variables above are absent from all sets)
                if t.is_zero() || *t == TT::base(t.n) {
                    return None;
                }
                for &v in &self.order {
                    if !t.fam_subset1(v).is_zero() {
                        return Some(v);
                    }
                }
                None
            }
            _ => self.order.iter().copied().find(|&v| t.depends_on(v)),
        }
    }

    // ---- pure instruction semantics (used by the generator and the executors) ---
    /// Expected register writes of a handle-producing instruction, assuming success.
    /// None = instruction is a no-op (missing operand / not applicable to this kind /
    /// precondition of the API not met).
    pub fn eval(&self, ins: &Instr) -> Option<Vec<(Reg, Option<Den>)>> {
        use Instr::*;
        let n = self.n;
        let k = self.kind;
        let vok = |v: u8| (v as u32) < n;
        Some(match ins {
            Clone { d, a } => vec![(*d, Some(self.reg(*a)?.clone()))],
            Const { d, val } if k.is_boolean() => vec![(*d, Some(Den::B(TT::constant(n, *val))))],
            Table { d, bits } if k.is_boolean() && n <= 6 => vec![(*d, Some(Den::B(TT::from_u64(n, *bits))))],
            Var { d, v } if k.is_boolean() && vok(*v) => vec![(*d, Some(Den::B(TT::var(n, *v as u32))))],
            NotVar { d, v } if k.is_boolean() && vok(*v) => {
                vec![(*d, Some(Den::B(TT::var(n, *v as u32).not())))]
            }
            Not { d, a } | NotOwned { d, a } if k.is_boolean() => vec![(*d, Some(Den::B(self.reg(*a)?.b().not())))],
            Bin { d, op, a, b } if k.is_boolean() => {
                vec![(*d, Some(Den::B(bin_tt(*op, self.reg(*a)?.b(), self.reg(*b)?.b()))))]
            }
            Ite { d, a, b, c } if k.is_boolean() => vec![(
                *d,
                Some(Den::B(self.reg(*a)?.b().ite(self.reg(*b)?.b(), self.reg(*c)?.b()))),
            )],
            Cof { d, d2, a, which } if k.is_boolean() => {
                let f = self.reg(*a)?.b();
                let (ct, cf) = match self.top_var_bool(f) {
                    None => (None, None),
                    Some(v) => {
                        if k == Kind::Zbdd {
                            // reduced-domain reading: hi = subset1, lo = subset0
                            (Some(Den::B(f.fam_subset1(v))), Some(Den::B(f.fam_subset0(v))))
                        } else {
                            (Some(Den::B(f.cofactor(v, true))), Some(Den::B(f.cofactor(v, false))))
                        }
                    }
                };
                match which {
                    0 => vec![(*d, ct), (*d2, cf)],
                    1 => vec![(*d, ct)],
                    _ => vec![(*d, cf)],
                }
            }
            Restrict { d, a, pos, neg } if k.has_quant() || k == Kind::Zbdd => {
                let f = self.reg(*a)?.b();
                let mut r = f.clone();
                for v in 0..n {
                    if pos >> v & 1 == 1 {
                        r = r.cofactor(v, true)
                    } else if neg >> v & 1 == 1 {
                        r = r.cofactor(v, false)
                    }
                }
                vec![(*d, Some(Den::B(r)))]
            }
            Quantify { d, q, a, vars } if k.has_quant() => {
                vec![(*d, Some(Den::B(quant_tt(*q, self.reg(*a)?.b(), *vars))))]
            }
            ApplyQuant { d, q, op, a, b, vars } if k.has_quant() => {
                let inner = bin_tt(*op, self.reg(*a)?.b(), self.reg(*b)?.b());
                vec![(*d, Some(Den::B(quant_tt(*q, &inner, *vars))))]
            }
            Subst { d, a, s } if k.has_quant() => {
                let f = self.reg(*a)?.b();
                let sub = self.substs.get(*s as usize)?.as_ref()?;
                let vars: Vec<u32> = sub.iter().map(|x| x.0).collect();
                let repl: Vec<TT> = sub.iter().map(|x| x.1.b().clone()).collect();
                vec![(*d, Some(Den::B(f.compose(&vars, &repl))))]
            }
            // pick_cube_dd* results are judged by a predicate, not by equality; eval
            // returns the operand so that generators know the register gets filled
            PickCubeDd { d, a, .. } | PickCubeDdSet { d, a, .. } if k.is_boolean() => {
                vec![(*d, Some(self.reg(*a)?.clone()))]
            }
            Dddmp { d, opts } if !opts.roots.is_empty() => {
                let mut w = vec![];
                for (i, r) in opts.roots.iter().enumerate() {
                    w.push(((*d as usize + i) as Reg, Some(self.reg(*r)?.clone())));
                }
                if w.iter().any(|x| x.0 as usize >= NREGS) {
                    return None;
                }
                w
            }
            ZConst { d, base } if k == Kind::Zbdd => {
                vec![(*d, Some(Den::B(if *base { TT::base(n) } else { TT::zero(n) })))]
            }
            ZSingleton { d, v } if k == Kind::Zbdd && vok(*v) => {
                vec![(*d, Some(Den::B(TT::base(n).fam_add_var(*v as u32))))]
            }
            ZBin { d, op, a, b } if k == Kind::Zbdd => {
                let (x, y) = (self.reg(*a)?.b(), self.reg(*b)?.b());
                vec![(
                    *d,
                    Some(Den::B(match op {
                        ZOp::Union => x.or(y),
                        ZOp::Intsec => x.and(y),
                        ZOp::Diff => x.andnot(y),
                    })),
                )]
            }
            ZUn { d, op, a, v } if k == Kind::Zbdd && vok(*v) => {
                let x = self.reg(*a)?.b();
                let v = *v as u32;
                vec![(
                    *d,
                    Some(Den::B(match op {
                        ZUnOp::Subset0 => x.fam_subset0(v),
                        ZUnOp::Subset1 => x.fam_subset1(v),
                        ZUnOp::Change => x.fam_change(v),
                    })),
                )]
            }
            ZMakeNode { d, v, hi, lo } if k == Kind::Zbdd && vok(*v) => {
                // precondition: v strictly above the top variables of hi and lo
                let (h, l) = (self.reg(*hi)?.b(), self.reg(*lo)?.b());
                let lv = self.var_to_level(*v as u32);
                for f in [h, l] {
                    // every variable occurring in some set must be strictly below v
                    for u in 0..n {
                        if !f.fam_subset1(u).is_zero() && self.var_to_level(u) <= lv {
                            return None;
                        }
                    }
                }
                vec![(*d, Some(Den::B(l.or(&h.fam_add_var(*v as u32)))))]
            }
            NConst { d, val } if matches!(k, Kind::MtbddI | Kind::MtbddF) => {
                vec![(*d, Some(Den::N(NumTab::constant(k, n, *val)?)))]
            }
            NVar { d, v } if matches!(k, Kind::MtbddI | Kind::MtbddF) && vok(*v) => {
                vec![(*d, Some(Den::N(NumTab::var(k, n, *v as u32))))]
            }
            NBin { d, op, a, b } if matches!(k, Kind::MtbddI | Kind::MtbddF) => {
                vec![(*d, Some(Den::N(num_bin(k, *op, self.reg(*a)?.n(), self.reg(*b)?.n()))))]
            }
            NIte { d, c, t, e } if matches!(k, Kind::MtbddI | Kind::MtbddF) => {
                let cc = self.reg(*c)?.n();
                if !cc.is_zero_one() {
                    return None; // documented precondition: 0-1-valued condition
                }
                vec![(*d, Some(Den::N(cc.ite(self.reg(*t)?.n(), self.reg(*e)?.n()))))]
            }
            NRestrict { d, a, pos, neg } if matches!(k, Kind::MtbddI | Kind::MtbddF) => {
                vec![(*d, Some(Den::N(self.reg(*a)?.n().restrict(*pos, *neg))))]
            }
            TConst { d, val } if k == Kind::Tdd && *val < 3 => {
                vec![(*d, Some(Den::T(TvlTab::constant(n, *val))))]
            }
            TVar { d, v } if k == Kind::Tdd && vok(*v) => vec![(*d, Some(Den::T(TvlTab::var(n, *v as u32))))],
            TNot { d, a } | TNotEdgeOwned { d, a } if k == Kind::Tdd => vec![(*d, Some(Den::T(self.reg(*a)?.t().not())))],
            TBin { d, op, a, b } if k == Kind::Tdd => {
                vec![(*d, Some(Den::T(self.reg(*a)?.t().bin(*op, self.reg(*b)?.t()))))]
            }
            TIte { d, a, b, c } if k == Kind::Tdd => {
                vec![(*d, Some(Den::T(self.reg(*a)?.t().ite(self.reg(*b)?.t(), self.reg(*c)?.t()))))]
            }
            TCof { d, d2, d3, a, which } if k == Kind::Tdd => {
                let f = self.reg(*a)?.t();
                let top = self.order.iter().copied().find(|&v| f.depends_on(v));
                let c = |val: u8| top.map(|v| Den::T(f.cofactor(v, val)));
                // children order: true, unknown, false
                // internal value code: 2 = true, 1 = unknown, 0 = false
                match which {
                    0 => vec![(*d, c(2)), (*d2, c(1)), (*d3, c(0))],
                    1 => vec![(*d, c(2))],
                    2 => vec![(*d, c(1))],
                    _ => vec![(*d, c(0))],
                }
            }
            _ => return None,
        })
    }

    /// Apply the pure model semantics of `ins` (generator side; assumes success).
    pub fn apply(&mut self, ins: &Instr) {
        use Instr::*;
        match ins {
            Drop { a } => {
                if let Some(r) = self.regs.get_mut(*a as usize) {
                    *r = None
                }
            }
            Gc | NodeCount { .. } | EvalAll { .. } | SatValid { .. } | PickCube { .. } | PickUniform { .. }
            | SatCount { .. } | NatOps { .. } | BigCount { .. } => {}
            AddVars { k } | AddVarsInReorder { k } => {
                if self.n + *k as u32 <= crate::tt::MAX_VARS {
                    self.add_vars(*k as u32)
                }
            }
            AddNamed { names, fault } => {
                if self.n + names.len() as u32 <= crate::tt::MAX_VARS {
                    let limit = match fault {
                        IterFault::None => None,
                        IterFault::PanicAt(k) => Some(*k as usize),
                    };
                    let _ = self.add_named(names, limit);
                }
            }
            AddNamedMap { names } => {
                if self.n + names.len() as u32 <= crate::tt::MAX_VARS {
                    let _ = self.add_named(names, None);
                }
            }
            SetName { v, name } => {
                if (*v as u32) < self.n {
                    let _ = self.set_name(*v as u32, name);
                }
            }
            Order { .. } => { /* the generator does not predict which minimal order is chosen */ }
            SubstNew { s, pairs } => {
                if let Some(p) = self.subst_pairs(pairs) {
                    self.substs[*s as usize] = Some(p);
                }
            }
            SubstDrop { s } => self.substs[*s as usize] = None,
            NotOwned { d, a } => {
                if let Some(w) = self.eval(ins) {
                    if d != a {
                        self.regs[*a as usize] = None;
                    }
                    self.commit(&w);
                }
            }
            _ => {
                if let Some(w) = self.eval(ins) {
                    self.commit(&w);
                }
            }
        }
    }
    pub fn commit(&mut self, writes: &[(Reg, Option<Den>)]) {
        for (r, d) in writes {
            self.regs[*r as usize] = d.clone();
        }
    }
    pub fn subst_pairs(&self, pairs: &[(u8, Reg)]) -> Option<Vec<(u32, Den)>> {
        if !self.kind.has_quant() {
            return None;
        }
        let mut out = vec![];
        let mut seen = 0u32;
        for (v, r) in pairs {
            if *v as u32 >= self.n || seen >> *v & 1 == 1 {
                return None; // documented precondition: distinct variables
            }
            seen |= 1 << *v;
            out.push((*v as u32, self.reg(*r)?.clone()));
        }
        Some(out)
    }
}

pub fn inversions(from: &[u32], to: &[u32]) -> usize {
    // position of each var in `to`
    let mut pos = vec![0usize; to.len()];
    for (i, &v) in to.iter().enumerate() {
        pos[v as usize] = i;
    }
    let seq: Vec<usize> = from.iter().map(|&v| pos[v as usize]).collect();
    let mut c = 0;
    for i in 0..seq.len() {
        for j in i + 1..seq.len() {
            if seq[i] > seq[j] {
                c += 1;
            }
        }
    }
    c
}

/// minimum over all permutations consistent with `request` (a chain) of the inversion
/// distance to `cur`
pub fn min_completion_distance(cur: &[u32], request: &[u32]) -> usize {
    let n = cur.len();
    let mut rank = vec![usize::MAX; n];
    for (i, &v) in request.iter().enumerate() {
        rank[v as usize] = i;
    }
    // enumerate permutations of positions by DFS with pruning on the request chain
    let mut best = usize::MAX;
    let mut perm: Vec<u32> = Vec::with_capacity(n);
    let mut used = vec![false; n];
    fn rec(
        cur: &[u32],
        rank: &[usize],
        perm: &mut Vec<u32>,
        used: &mut Vec<bool>,
        next_rank: usize,
        cost: usize,
        best: &mut usize,
    ) {
        let n = cur.len();
        if cost >= *best {
            return;
        }
        if perm.len() == n {
            *best = cost;
            return;
        }
        for (ci, &v) in cur.iter().enumerate() {
            if used[ci] {
                continue;
            }
            let r = rank[v as usize];
            if r != usize::MAX && r != next_rank {
                continue;
            }
            // placing v next: every unused element that is before v in cur gets inverted
            let add = (0..ci).filter(|&j| !used[j]).count();
            used[ci] = true;
            perm.push(v);
            rec(cur, rank, perm, used, if r == usize::MAX { next_rank } else { next_rank + 1 }, cost + add, best);
            perm.pop();
            used[ci] = false;
        }
    }
    rec(cur, &rank, &mut perm, &mut used, 0, 0, &mut best);
    best
}

// ---- canonical sizes for the boolean kinds ------------------------------------

fn canon_bdd(t: &TT, order: &[u32]) -> usize {
    let mut seen: HashMap<TT, ()> = HashMap::new();
    canon_bdd_into(t, order, &mut seen);
    seen.len()
}

fn canon_bdd_into(t: &TT, order: &[u32], seen: &mut HashMap<TT, ()>) {
    // distinct subfunctions reachable by cofactoring along the order, with BDD reduction
    fn rec(t: &TT, order: &[u32], l: usize, seen: &mut HashMap<TT, ()>) {
        if seen.contains_key(t) {
            return;
        }
        seen.insert(t.clone(), ());
        if t.is_zero() || t.is_one() {
            return;
        }
        let mut l = l;
        while !t.depends_on(order[l]) {
            l += 1;
        }
        let v = order[l];
        rec(&t.cofactor(v, true), order, l + 1, seen);
        rec(&t.cofactor(v, false), order, l + 1, seen);
    }
    rec(t, order, 0, seen);
}

fn canon_bcdd(t: &TT, order: &[u32]) -> usize {
    let mut seen: HashMap<TT, ()> = HashMap::new();
    canon_bcdd_into(t, order, &mut seen);
    seen.len()
}

fn canon_bcdd_into(t: &TT, order: &[u32], seen: &mut HashMap<TT, ()>) {
    // nodes are classes {f, ¬f}; one terminal
    fn norm(t: &TT) -> TT {
        // representative: the one false at the all-zero assignment... any fixed choice
        if t.get(0) { t.not() } else { t.clone() }
    }
    fn rec(t: &TT, order: &[u32], l: usize, seen: &mut HashMap<TT, ()>) {
        let r = norm(t);
        if seen.contains_key(&r) {
            return;
        }
        seen.insert(r.clone(), ());
        if r.is_zero() {
            return;
        }
        let mut l = l;
        while !r.depends_on(order[l]) {
            l += 1;
        }
        let v = order[l];
        rec(&r.cofactor(v, true), order, l + 1, seen);
        rec(&r.cofactor(v, false), order, l + 1, seen);
    }
    rec(t, order, 0, seen);
}

fn canon_zbdd(t: &TT, order: &[u32]) -> usize {
    let mut seen: HashMap<TT, ()> = HashMap::new();
    canon_zbdd_into(t, order, &mut seen);
    seen.len()
}

fn canon_zbdd_into(t: &TT, order: &[u32], seen: &mut HashMap<TT, ()>) {
    // families; a node exists at variable v iff the hi-family (sets containing v) is
    // non-empty. Key: (level, family) is unnecessary: a family determines its diagram
    // below the first level whose variable occurs in some set.
    let base = TT::base(t.n);
    fn rec(t: &TT, base: &TT, order: &[u32], l: usize, seen: &mut HashMap<TT, ()>) {
        if seen.contains_key(t) {
            return;
        }
        seen.insert(t.clone(), ());
        if t.is_zero() || t == base {
            return;
        }
        let mut l = l;
        while t.fam_subset1(order[l]).is_zero() {
            l += 1;
        }
        let v = order[l];
        rec(&t.fam_subset1(v), base, order, l + 1, seen);
        rec(&t.fam_subset0(v), base, order, l + 1, seen);
    }
    rec(t, &base, order, 0, seen);
}

#[cfg(test)]
mod tests {
    use super::*;
    #[test]
    fn canon_small() {
        let x0 = TT::var(2, 0);
        let x1 = TT::var(2, 1);
        let ord = [0, 1];
        assert_eq!(canon_bdd(&x0, &ord), 3);
        assert_eq!(canon_bdd(&x0.and(&x1).not(), &ord), 4);
        assert_eq!(canon_bcdd(&x0, &ord), 2);
        assert_eq!(canon_bcdd(&x0.and(&x1).not(), &ord), 3);
        // zbdd: singleton {x0} over 2 vars
        let s0 = TT::base(2).fam_add_var(0);
        let s1 = TT::base(2).fam_add_var(1);
        assert_eq!(canon_zbdd(&s0, &ord), 3);
        assert_eq!(canon_zbdd(&s0.or(&s1), &ord), 4);
    }
    #[test]
    fn min_dist() {
        assert_eq!(min_completion_distance(&[0, 1, 2, 3, 4], &[2, 3, 1]), inversions(&[0, 1, 2, 3, 4], &[0, 2, 3, 1, 4]));
        assert_eq!(min_completion_distance(&[0, 1, 2], &[2, 1, 0]), 3);
    }
}
