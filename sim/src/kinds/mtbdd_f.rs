//! MTBDD machine with f64 terminals
use oxidd::mtbdd::terminal::F64;
pub type T = F64;
pub const KIND: Kind = Kind::MtbddF;
fn to_scalar(t: &T) -> Scalar {
    Scalar::F(f64::from(*t).to_bits())
}
fn from_scalar(s: Scalar) -> T {
    match s {
        Scalar::F(b) => F64::from(f64::from_bits(b)),
        Scalar::Int(i) => F64::from(i as f64),
        Scalar::PosInf => F64::from(f64::INFINITY),
        Scalar::NegInf => F64::from(f64::NEG_INFINITY),
        Scalar::NaN => F64::from(f64::NAN),
    }
}
include!("mtbdd_body.rs");
