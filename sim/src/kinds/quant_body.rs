// Included into the BDD and BCDD kind modules: quantification, restriction, substitution.

use oxidd::{BooleanFunctionQuant as _, FunctionSubst as _};

fn boolop(op: BinOp) -> oxidd::BooleanOperator {
    use oxidd::BooleanOperator as O;
    match op {
        BinOp::And => O::And,
        BinOp::Or => O::Or,
        BinOp::Nand => O::Nand,
        BinOp::Nor => O::Nor,
        BinOp::Xor => O::Xor,
        BinOp::Equiv => O::Equiv,
        BinOp::Imp => O::Imp,
        BinOp::ImpStrict => O::ImpStrict,
    }
}

pub fn step_quant(s: &mut Mach, ins: &Instr, model: &mut Model, ctx: &mut RunCtx) -> bool {
    use Instr::*;
    let n = model.n;
    let mask = if n >= 32 { !0 } else { (1u32 << n) - 1 };
    match ins {
        Restrict { a, pos, neg, .. } => {
            let (p, ng) = (*pos & !*neg & mask, *neg & mask);
            s.exec_eval(ins, model, ctx, |s| {
                let f = s.reg(*a).unwrap();
                vec![Some(make_cube(s, p, ng, n).and_then(|c| f.restrict(&c)))]
            })
        }
        Quantify { q, a, vars, .. } => {
            let vs = *vars & mask;
            s.exec_eval(ins, model, ctx, |s| {
                let f = s.reg(*a).unwrap();
                vec![Some(make_cube(s, vs, 0, n).and_then(|c| match q {
                    Quant::Forall => f.forall(&c),
                    Quant::Exists => f.exists(&c),
                    Quant::Unique => f.unique(&c),
                }))]
            })
        }
        ApplyQuant { q, op, a, b, vars, .. } => {
            let vs = *vars & mask;
            s.exec_eval(ins, model, ctx, |s| {
                let f = s.reg(*a).unwrap();
                let g = s.reg(*b).unwrap();
                let o = boolop(*op);
                vec![Some(make_cube(s, vs, 0, n).and_then(|c| match q {
                    Quant::Forall => f.apply_forall(o, g, &c),
                    Quant::Exists => f.apply_exists(o, g, &c),
                    Quant::Unique => f.apply_unique(o, g, &c),
                }))]
            })
        }
        SubstNew { s: slot, pairs } => {
            let Some(mp) = model.subst_pairs(pairs) else { return true };
            let vars: Vec<u32> = pairs.iter().map(|p| p.0 as u32).collect();
            let repl: Vec<F> = pairs.iter().map(|p| s.reg(p.1).unwrap().clone()).collect();
            s.substs[*slot as usize] = Some(oxidd::Subst::new(vars, repl));
            model.substs[*slot as usize] = Some(mp);
            ctx.stats.bump("probe.subst_new");
        }
        SubstDrop { s: slot } => {
            s.substs[*slot as usize] = None;
            model.substs[*slot as usize] = None;
        }
        Subst { a, s: slot, .. } => s.exec_eval(ins, model, ctx, |s| {
            let f = s.reg(*a).unwrap();
            let sub = s.substs[*slot as usize].as_ref().unwrap();
            vec![Some(f.substitute(sub))]
        }),
        _ => return false,
    }
    true
}
