//! ZBDD machine
pub type F = oxidd::zbdd::ZBDDFunction;
pub type MRef = oxidd::zbdd::ZBDDManagerRef;
pub const KIND: Kind = Kind::Zbdd;

fn new_manager(cfg: &Config) -> MRef {
    oxidd::zbdd::new_manager(cfg.capacity as usize, cfg.cache as usize, cfg.threads)
}
fn term_code(t: &oxidd_rules_zbdd::ZBDDTerminal) -> TermCode {
    TermCode::Bool(*t == oxidd_rules_zbdd::ZBDDTerminal::Base)
}
fn initial_nodes(n: u32) -> usize {
    n as usize
}
fn backend_has_capacity() -> bool {
    cfg!(not(feature = "pointer"))
}

#[derive(Default)]
pub struct Extra {
    pub sat: SatCaches,
}
impl Extra {
    fn handles(&self) -> Vec<&F> {
        vec![]
    }
    fn audit(&mut self, _s: &mut Snapshot, _model: &Model, _ctx: &mut RunCtx) {}
    fn clear(&mut self) {
        self.sat = SatCaches::default();
    }
}

fn step_zbdd(s: &mut Mach, ins: &Instr, model: &mut Model, ctx: &mut RunCtx) -> bool {
    use oxidd::BooleanVecSet as _;
    use Instr::*;
    match ins {
        ZConst { base, .. } => {
            let b = *base;
            s.exec_eval(ins, model, ctx, |s| vec![Some(Ok(s.mref.with_manager_shared(|m| if b { F::base(m) } else { F::empty(m) })))])
        }
        Restrict { a, pos, neg, .. } => {
            let n = model.n;
            let mask = if n >= 32 { !0 } else { (1u32 << n) - 1 };
            let (p, ng) = (*pos & !*neg & mask, *neg & mask);
            s.exec_eval(ins, model, ctx, |s| {
                let f = s.reg(*a).unwrap();
                vec![Some(make_cube(s, p, ng, n).and_then(|c| f.restrict(&c)))]
            })
        }
        ZSingleton { v, .. } => {
            let v = *v as u32;
            s.exec_eval(ins, model, ctx, |s| vec![Some(s.mref.with_manager_shared(|m| F::singleton(m, v)))])
        }
        ZBin { op, a, b, .. } => s.exec_eval(ins, model, ctx, |s| {
            let (x, y) = (s.reg(*a).unwrap(), s.reg(*b).unwrap());
            vec![Some(match op {
                ZOp::Union => x.union(y),
                ZOp::Intsec => x.intsec(y),
                ZOp::Diff => x.diff(y),
            })]
        }),
        ZUn { op, a, v, .. } => s.exec_eval(ins, model, ctx, |s| {
            let x = s.reg(*a).unwrap();
            let v = *v as u32;
            vec![Some(match op {
                ZUnOp::Subset0 => x.subset0(v),
                ZUnOp::Subset1 => x.subset1(v),
                ZUnOp::Change => x.change(v),
            })]
        }),
        // make_node requires the variable to be above both children: a precondition on the
        // CURRENT order, which nobody can establish while another thread may reorder
        ZMakeNode { .. } if ctx.order_unstable => {
            ctx.stats.bump("instr.skipped");
        }
        ZMakeNode { v, hi, lo, .. } => s.exec_eval(ins, model, ctx, |s| {
            let (h, l) = (s.reg(*hi).unwrap().clone(), s.reg(*lo).unwrap().clone());
            let v = *v as u32;
            vec![Some(s.mref.with_manager_shared(|m| {
                let var = F::singleton(m, v)?;
                let he = h.into_edge(m);
                let le = l.into_edge(m);
                let res = oxidd::zbdd::make_node(m, var.as_edge(m), he, le);
                res.map(|e| F::from_edge(m, e))
            }))]
        }),
        _ => return false,
    }
    true
}

fn step_kind(s: &mut Mach, ins: &Instr, model: &mut Model, ctx: &mut RunCtx) -> bool {
    step_bool(s, ins, model, ctx) || step_zbdd(s, ins, model, ctx) || step_dddmp(s, ins, model, ctx)
}

include!("../exec_body.rs");
include!("bool_body.rs");
include!("dddmp_body.rs");
fn complement_edge<'id>(m: &Mgr<'id>, e: Ed<'id>) -> oxidd::util::AllocResult<Ed<'id>> {
    use oxidd::BooleanFunction as _; F::not_edge_owned(m, e)
}
