// Included into the kind modules that support DDDMP import (BDD, BCDD, ZBDD, MTBDD).
// The kind module defines `fn complement_edge(m, e) -> AllocResult<Edge>`.
//
// A simulated disk: `export` writes through `FaultyWriter`; the bytes that reached the
// "platter" form the file; `DumpHeader::load` + `import` read through `FaultyReader`.

use oxidd_dump::dddmp;
use std::io;

#[derive(Clone, Debug)]
enum WPlan {
    Plain,
    /// accept at most `max` bytes per write call
    Short { max: usize },
    /// every `every`-th call returns ErrorKind::Interrupted (and writes nothing)
    Interrupt { every: usize },
    /// hard error at call number `call`
    ErrAt { call: usize },
    /// device full: accepts `bytes` bytes in total, then fails
    Full { bytes: usize },
}

struct FaultyWriter {
    platter: Vec<u8>,
    plan: WPlan,
    calls: usize,
    fired: u64,
}
impl io::Write for FaultyWriter {
    fn write(&mut self, buf: &[u8]) -> io::Result<usize> {
        self.calls += 1;
        match self.plan {
            WPlan::Plain => {
                self.platter.extend_from_slice(buf);
                Ok(buf.len())
            }
            WPlan::Short { max } => {
                let k = buf.len().min(1 + (self.calls * 7 + 3) % max.max(1));
                if k < buf.len() {
                    self.fired += 1;
                }
                self.platter.extend_from_slice(&buf[..k]);
                Ok(k)
            }
            WPlan::Interrupt { every } => {
                if self.calls % every.max(1) == 0 {
                    self.fired += 1;
                    return Err(io::Error::from(io::ErrorKind::Interrupted));
                }
                self.platter.extend_from_slice(buf);
                Ok(buf.len())
            }
            WPlan::ErrAt { call } => {
                if self.calls == call {
                    self.fired += 1;
                    return Err(io::Error::other("injected write error"));
                }
                self.platter.extend_from_slice(buf);
                Ok(buf.len())
            }
            WPlan::Full { bytes } => {
                let room = bytes.saturating_sub(self.platter.len());
                if room == 0 && !buf.is_empty() {
                    self.fired += 1;
                    return Err(io::Error::new(io::ErrorKind::StorageFull, "injected: device full"));
                }
                let k = buf.len().min(room);
                self.platter.extend_from_slice(&buf[..k]);
                Ok(k)
            }
        }
    }
    fn flush(&mut self) -> io::Result<()> {
        Ok(())
    }
}

#[derive(Clone, Debug)]
enum RPlan {
    Plain,
    Short { max: usize },
    Interrupt { every: usize },
    ErrAt { call: usize },
}

struct FaultyReader<'a> {
    data: &'a [u8],
    pos: usize,
    plan: RPlan,
    calls: usize,
    fired: u64,
}
impl<'a> FaultyReader<'a> {
    fn avail(&mut self) -> io::Result<usize> {
        self.calls += 1;
        let rest = self.data.len() - self.pos;
        match self.plan {
            RPlan::Plain => Ok(rest),
            RPlan::Short { max } => {
                let k = rest.min(1 + (self.calls * 5 + 1) % max.max(1));
                if k < rest {
                    self.fired += 1;
                }
                Ok(k)
            }
            RPlan::Interrupt { every } => {
                if self.calls % every.max(1) == 0 {
                    self.fired += 1;
                    return Err(io::Error::from(io::ErrorKind::Interrupted));
                }
                Ok(rest)
            }
            RPlan::ErrAt { call } => {
                if self.calls == call {
                    self.fired += 1;
                    return Err(io::Error::other("injected read error"));
                }
                Ok(rest)
            }
        }
    }
}
impl<'a> io::Read for FaultyReader<'a> {
    fn read(&mut self, buf: &mut [u8]) -> io::Result<usize> {
        let k = self.avail()?.min(buf.len());
        buf[..k].copy_from_slice(&self.data[self.pos..self.pos + k]);
        self.pos += k;
        Ok(k)
    }
}
impl<'a> io::BufRead for FaultyReader<'a> {
    fn fill_buf(&mut self) -> io::Result<&[u8]> {
        let k = self.avail()?;
        Ok(&self.data[self.pos..self.pos + k])
    }
    fn consume(&mut self, amt: usize) {
        self.pos += amt;
    }
}

fn clean_name(s: &str) -> bool {
    !s.is_empty() && !s.bytes().any(|b| b.is_ascii_control() || b == b' ')
}

/// import `bytes` into the manager of `s`; Ok(handles, header facts) or the error text
fn import_bytes(s: &Mach, bytes: &[u8], rplan: RPlan, fired: &mut u64) -> Result<(Vec<F>, HeaderFacts), String> {
    let mut rd = FaultyReader { data: bytes, pos: 0, plan: rplan, calls: 0, fired: 0 };
    let header = match dddmp::DumpHeader::load(&mut rd) {
        Ok(h) => h,
        Err(e) => {
            *fired += rd.fired;
            return Err(format!("header: {}", e));
        }
    };
    let facts = HeaderFacts {
        name: header.diagram_name().map(|x| x.to_string()),
        nvars: header.num_vars(),
        support: header.support_vars().to_vec(),
        order: header.support_var_order().to_vec(),
        var_names: header.var_names().map(|v| v.to_vec()),
        nroots: header.num_roots(),
        root_names: header.root_names().map(|v| v.to_vec()),
    };
    let res = s.mref.with_manager_shared(|m| {
        // preconditions of import(): variables valid in the manager, sorted by level
        let sv: Vec<u32> = header.support_var_order().to_vec();
        let n = m.num_levels();
        if sv.iter().any(|&v| v >= n) {
            return Err("precondition: support variable out of range for this manager".to_string());
        }
        let lv: Vec<u32> = sv.iter().map(|&v| m.var_to_level(v)).collect();
        if !lv.windows(2).all(|w| w[0] < w[1]) {
            return Err("precondition: support variables not sorted by level in this manager".to_string());
        }
        dddmp::import::<F>(&mut rd, &header, m, sv, complement_edge).map_err(|e| format!("import: {}", e))
    });
    *fired += rd.fired;
    res.map(|v| (v, facts))
}

#[derive(Debug, Clone)]
struct HeaderFacts {
    name: Option<String>,
    nvars: u32,
    support: Vec<u32>,
    order: Vec<u32>,
    var_names: Option<Vec<String>>,
    nroots: usize,
    root_names: Option<Vec<String>>,
}

pub fn step_dddmp(s: &mut Mach, ins: &Instr, model: &mut Model, ctx: &mut RunCtx) -> bool {
    let Instr::Dddmp { d, opts } = ins else { return false };
    let Some(writes) = model.eval(ins) else {
        ctx.stats.bump("instr.skipped");
        return true;
    };
    let n = model.n;
    let step = ctx.step as u64;
    let mut rng = crate::rng::Rng::new(ctx.io_seed, step, crate::rng::STREAM_IO);
    let roots: Vec<F> = opts.roots.iter().map(|r| s.reg(*r).unwrap().clone()).collect();
    let root_dens: Vec<Den> = opts.roots.iter().map(|r| model.reg(*r).unwrap().clone()).collect();

    // ---- export --------------------------------------------------------------
    let faulty = ctx.io_faults;
    let wplan = if !faulty {
        WPlan::Plain
    } else {
        match rng.below(6) {
            0 | 1 => WPlan::Short { max: 1 + rng.below(7) as usize },
            2 => WPlan::Interrupt { every: 2 + rng.below(5) as usize },
            3 => WPlan::ErrAt { call: 1 + rng.below(40) as usize },
            4 => WPlan::Full { bytes: rng.below(400) as usize },
            _ => WPlan::Plain,
        }
    };
    let mut w = FaultyWriter { platter: vec![], plan: wplan.clone(), calls: 0, fired: 0 };
    let version = if opts.v3 { dddmp::DDDMPVersion::V3_0 } else { dddmp::DDDMPVersion::V2_0 };
    let mut settings = dddmp::ExportSettings::default().version(version).strict(opts.strict).diagram_name(&opts.diagram_name);
    settings = if opts.ascii { settings.ascii() } else { settings.binary() };
    let eres = s.mref.with_manager_shared(|m| match &opts.root_names {
        Some(names) => settings.export_with_names(&mut w, m, roots.iter().zip(names.iter())),
        None => settings.export(&mut w, m, roots.iter()),
    });
    ctx.stats.bump("probe.dddmp_export");
    if w.fired > 0 {
        ctx.stats.add(
            match wplan {
                WPlan::Short { .. } => "fault.io_short_write",
                WPlan::Interrupt { .. } => "fault.io_write_interrupted",
                WPlan::ErrAt { .. } => "fault.io_write_error",
                WPlan::Full { .. } => "fault.io_device_full",
                WPlan::Plain => "fault.io_none",
            },
            w.fired,
        );
    }
    let hard_fault = matches!(wplan, WPlan::ErrAt { .. } | WPlan::Full { .. }) && w.fired > 0;
    let names_clean = model.names.iter().all(|x| clean_name(x));
    let roots_clean = opts.root_names.as_ref().is_none_or(|v| v.iter().all(|x| clean_name(x)));
    let dd_clean = !opts.diagram_name.bytes().any(|b| b.is_ascii_control());
    let sanitising = !(roots_clean && dd_clean && (names_clean || model.num_named() == 0 || (opts.strict && model.num_named() != n)));
    match &eres {
        Ok(()) => {
            if hard_fault {
                ctx.violate(&["C15"], "export-swallowed-error", format!("{:?}: export returned Ok although the writer failed ({:?})", ins, wplan));
                return true;
            }
        }
        Err(e) => {
            let strict_report = opts.strict && e.kind() == io::ErrorKind::InvalidInput;
            if !hard_fault && !strict_report {
                ctx.violate(&["C15"], "export-error", format!("{:?}: export failed without an injected fault: {} (writer plan {:?})", ins, e, wplan));
                return true;
            }
            if strict_report && !sanitising && !hard_fault {
                ctx.violate(&["C15"], "export-strict-error", format!("{:?}: strict mode reported '{}' although no name needs sanitising", ins, e));
                return true;
            }
            if hard_fault {
                // a failed export promises nothing about the platter
                return true;
            }
        }
    }
    let file = w.platter;

    // ---- import into the same manager ------------------------------------------
    let rplan = if !faulty {
        RPlan::Plain
    } else {
        match rng.below(5) {
            0 | 1 => RPlan::Short { max: 1 + rng.below(9) as usize },
            2 => RPlan::Interrupt { every: 2 + rng.below(5) as usize },
            3 => RPlan::ErrAt { call: 1 + rng.below(30) as usize },
            _ => RPlan::Plain,
        }
    };
    let mut rfired = 0;
    let ires = import_bytes(s, &file, rplan.clone(), &mut rfired);
    if rfired > 0 {
        ctx.stats.add(
            match rplan {
                RPlan::Short { .. } => "fault.io_short_read",
                RPlan::Interrupt { .. } => "fault.io_read_interrupted",
                RPlan::ErrAt { .. } => "fault.io_read_error",
                RPlan::Plain => "fault.io_none",
            },
            rfired,
        );
    }
    let read_hard = matches!(rplan, RPlan::ErrAt { .. }) && rfired > 0;
    match ires {
        Err(e) => {
            let oom = e.contains("out of memory");
            if oom {
                ctx.stats.bump("fault.oom_result");
                ctx.oom_seen = true;
            }
            if !(read_hard || (oom && s.cfg.oom_ok)) {
                ctx.violate(&["C15"], "import-rejects-own-export", format!("{:?}: importing the exported file failed: {} (reader plan {:?})\n{}", ins, e, rplan, String::from_utf8_lossy(&file)));
            }
            for (r, _) in &writes {
                s.regs[*r as usize] = None;
                model.regs[*r as usize] = None;
            }
        }
        Ok((handles, facts)) => {
            if handles.len() != roots.len() || facts.nroots != roots.len() {
                ctx.violate(&["C15"], "import-root-count", format!("{:?}: {} roots exported, {} imported", ins, roots.len(), handles.len()));
                return true;
            }
            for (i, (h, orig)) in handles.iter().zip(&roots).enumerate() {
                if h != orig {
                    ctx.violate(&["C15"], "roundtrip-handle", format!("{:?}: root {} imported into the same manager is a different handle", ins, i));
                }
            }
            // header metadata
            if facts.nvars != n {
                ctx.violate(&["C15"], "header-nvars", format!("{:?}: header says {} variables, manager has {}", ins, facts.nvars, n));
            }
            let mut supp = vec![false; n as usize];
            for d in &root_dens {
                for v in 0..n {
                    let dep = match d {
                        Den::B(t) => if KIND == Kind::Zbdd { !t.fam_subset1(v).is_zero() } else { t.depends_on(v) },
                        Den::N(t) => t.depends_on(v),
                        Den::T(t) => t.depends_on(v),
                    };
                    if dep {
                        supp[v as usize] = true;
                    }
                }
            }
            let exp_support: Vec<u32> = (0..n).filter(|v| supp[*v as usize]).collect();
            if facts.support != exp_support {
                ctx.violate(&["C15"], "header-support", format!("{:?}: header support {:?}, expected {:?}", ins, facts.support, exp_support));
            }
            let exp_order: Vec<u32> = model.order.iter().copied().filter(|v| supp[*v as usize]).collect();
            if facts.order != exp_order {
                ctx.violate(&["C15"], "header-order", format!("{:?}: header support order {:?}, expected {:?}", ins, facts.order, exp_order));
            }
            match (&opts.root_names, &facts.root_names) {
                (None, None) => {}
                (Some(exp), Some(got)) => {
                    if got.len() != exp.len() {
                        ctx.violate(&["C15"], "header-rootnames", format!("{:?}: root names {:?}", ins, got));
                    }
                    for (e, g) in exp.iter().zip(got) {
                        if clean_name(e) && e != g {
                            ctx.violate(&["C15"], "header-rootnames", format!("{:?}: root name {:?} came back as {:?}", ins, e, g));
                        }
                        if !clean_name(g) {
                            ctx.violate(&["C15"], "header-rootnames", format!("{:?}: imported root name {:?} is not sanitised", ins, g));
                        }
                    }
                }
                (a, b) => ctx.violate(&["C15"], "header-rootnames", format!("{:?}: root names exported {:?}, header has {:?}", ins, a, b)),
            }
            if dd_clean {
                let exp = if opts.diagram_name.trim().is_empty() { None } else { Some(opts.diagram_name.trim().to_string()) };
                if facts.name.as_ref().map(|x| x.trim().to_string()) != exp {
                    ctx.violate(&["C15"], "header-dd-name", format!("{:?}: diagram name {:?} came back as {:?}", ins, opts.diagram_name, facts.name));
                }
            }
            match &facts.var_names {
                None => {
                    if model.num_named() == n && n > 0 && (names_clean || !opts.strict) {
                        ctx.violate(&["C15"], "header-varnames-missing", format!("{:?}: all variables are named but the header has no names", ins));
                    }
                }
                Some(vn) => {
                    if vn.len() != n as usize {
                        ctx.violate(&["C15"], "header-varnames", format!("{:?}: {} variable names for {} variables", ins, vn.len(), n));
                    } else {
                        for (v, g) in vn.iter().enumerate() {
                            let orig = &model.names[v];
                            // DDDMP 2.0 has no .varnames entry: the positions of variables
                            // outside the support are not recorded, only their relative order
                            let placed = opts.v3 || supp[v];
                            if placed && clean_name(orig) && g != orig && !g.ends_with(orig.as_str()) {
                                ctx.violate(&["C15"], "header-varnames", format!("{:?}: variable {} named {:?} came back as {:?}", ins, v, orig, g));
                            }
                            if !clean_name(g) {
                                ctx.violate(&["C15"], "header-varnames", format!("{:?}: imported variable name {:?} is not sanitised", ins, g));
                            }
                        }
                        let mut sorted = vn.clone();
                        sorted.sort();
                        sorted.dedup();
                        if sorted.len() != vn.len() {
                            ctx.violate(&["C15"], "header-varnames", format!("{:?}: imported variable names are not unique: {:?}", ins, vn));
                        }
                    }
                }
            }
            for ((r, exp), h) in writes.iter().zip(handles) {
                s.regs[*r as usize] = Some(h);
                model.regs[*r as usize] = exp.clone();
                s.written.push(*r);
            }
            ctx.stats.bump("probe.dddmp_roundtrip_same_manager");
        }
    }
    let _ = d;

    // ---- import into a fresh manager with a compatible order ---------------------
    if !faulty && !ctx.failed() && !s.cfg.oom_ok {
        let mut cfg2 = s.cfg.clone();
        cfg2.vars = n;
        let other = Mach::new(&cfg2);
        other.mref.with_manager_exclusive(|m| oxidd_reorder::set_var_order_seq(m, &model.order));
        let mut f2 = 0;
        match import_bytes(&other, &file, RPlan::Plain, &mut f2) {
            Err(e) => ctx.violate(&["C15"], "import-fresh-manager", format!("{:?}: import into a fresh manager failed: {}", ins, e)),
            Ok((handles, _)) => {
                let mut o2 = other;
                for (i, h) in handles.into_iter().enumerate() {
                    o2.regs[i] = Some(h);
                }
                let mut snap = o2.snapshot();
                for (i, dexp) in root_dens.iter().enumerate() {
                    match snap.regs[i].map(|e| snap.den(e)) {
                        Some(Ok(dg)) => {
                            if &dg != dexp {
                                ctx.violate(&["C15"], "roundtrip-fresh-denotation", format!("{:?}: root {} denotes {} in a fresh manager, original {}", ins, i, dg.short(), dexp.short()));
                            }
                        }
                        other => ctx.violate(&["C15"], "roundtrip-fresh-walk", format!("{:?}: root {}: {:?}", ins, i, other.map(|x| x.map(|d| d.short())))),
                    }
                }
                ctx.stats.bump("probe.dddmp_roundtrip_fresh_manager");
            }
        }
    }

    // ---- C14: import into fresh managers of every capacity up to what the file needs ----
    let identity = model.order.iter().enumerate().all(|(i, v)| i as u32 == *v);
    if crate::run::SWEEP_MODE.load(std::sync::atomic::Ordering::Relaxed) && !faulty && !ctx.io_corrupt && !ctx.failed() && s.cfg.oom_ok && backend_has_capacity() && (KIND != Kind::Zbdd || identity) {
        let used = s.mref.with_manager_shared(|m| m.num_inner_nodes()) as u32;
        let lo = if KIND == Kind::Zbdd { n + 4 } else { 0 };
        let hi = (lo + used + 2).min(99);
        for cap in lo..=hi {
            let mut cfg2 = s.cfg.clone();
            cfg2.vars = n;
            cfg2.capacity = cap;
            cfg2.term_capacity = 64;
            let mut other = Mach::new(&cfg2);
            if !identity {
                other.mref.with_manager_exclusive(|m| oxidd_reorder::set_var_order_seq(m, &model.order));
            }
            let initial = other.mref.with_manager_shared(|m| m.num_inner_nodes());
            let mut f2 = 0;
            ctx.stats.bump("probe.dddmp_import_capacity_point");
            match import_bytes(&other, &file, RPlan::Plain, &mut f2) {
                Err(e) => {
                    if !e.contains("out of memory") {
                        ctx.violate(&["C14", "C15"], "import-tight-error", format!("{:?}: import into a fresh manager of capacity {} failed with '{}', which is no out-of-memory report", ins, cap, e));
                        break;
                    }
                    ctx.stats.bump("fault.oom_result");
                    ctx.stats.bump("probe.dddmp_import_oom");
                }
                Ok((handles, _)) => {
                    for (i, h) in handles.into_iter().enumerate() {
                        other.regs[i] = Some(h);
                    }
                    let mut snap = other.snapshot();
                    for (i, dexp) in root_dens.iter().enumerate() {
                        match snap.regs[i].map(|e| snap.den(e)) {
                            Some(Ok(dg)) if &dg == dexp => {}
                            Some(Ok(dg)) => ctx.violate(&["C14", "C15"], "import-tight-denotation", format!("{:?}: capacity {}: root {} denotes {}, original {}", ins, cap, i, dg.short(), dexp.short())),
                            o => ctx.violate(&["C14", "C15"], "import-tight-walk", format!("{:?}: capacity {}: root {}: {:?}", ins, cap, i, o.map(|x| x.map(|d| d.short())))),
                        }
                    }
                    for r in other.regs.iter_mut() {
                        *r = None;
                    }
                }
            }
            other.mref.with_manager_shared(|m| m.gc());
            let left = other.mref.with_manager_shared(|m| m.num_inner_nodes());
            if left != initial {
                ctx.violate(&["C14", "C05"], "import-tight-leak", format!("{:?}: after an import into a fresh manager of capacity {} and dropping everything, gc leaves {} inner nodes, {} initially", ins, cap, left, initial));
                break;
            }
        }
    }

    // ---- C14/C15: a complement-edge ASCII file imported into plain BDD managers of every capacity:
    // negated children go through the caller's complement function, which allocates
    if KIND == Kind::Bcdd && crate::run::SWEEP_MODE.load(std::sync::atomic::Ordering::Relaxed) && opts.ascii && identity && !faulty && !ctx.io_corrupt && !ctx.failed() && s.cfg.oom_ok && backend_has_capacity() && n <= 8 {
        use oxidd::{BooleanFunction as _, Function as _, Manager as _, ManagerRef as _};
        type BF = oxidd::bdd::BDDFunction;
        let used = s.mref.with_manager_shared(|m| m.num_inner_nodes()) as u32;
        for cap in 0..=(2 * used + 4).min(99) {
            ctx.stats.bump("probe.dddmp_cross_kind_capacity_point");
            let born = std::time::Instant::now();
            let other = oxidd::bdd::new_manager(cap as usize, 16, 1);
            other.with_manager_exclusive(|m| {
                m.add_vars(n);
            });
            let mut rd = FaultyReader { data: &file, pos: 0, plan: RPlan::Plain, calls: 0, fired: 0 };
            let header = match dddmp::DumpHeader::load(&mut rd) {
                Ok(h) => h,
                Err(e) => {
                    ctx.violate(&["C15"], "cross-kind-header", format!("{:?}: {}", ins, e));
                    break;
                }
            };
            let sv: Vec<u32> = header.support_var_order().to_vec();
            let res = other.with_manager_shared(|m| dddmp::import::<BF>(&mut rd, &header, m, sv, |m, e| BF::not_edge_owned(m, e)));
            match res {
                Err(e) => {
                    let msg = e.to_string().to_lowercase();
                    if !msg.contains("out of memory") {
                        ctx.violate(&["C14", "C15"], "cross-kind-error", format!("{:?}: import into a BDD manager of capacity {} failed with '{}', which is no out-of-memory report", ins, cap, e));
                        break;
                    }
                    ctx.stats.bump("probe.dddmp_cross_kind_oom");
                }
                Ok(handles) => {
                    for (i, (h, dexp)) in handles.iter().zip(&root_dens).enumerate() {
                        let t = dexp.b();
                        for a in 0..1u32 << n {
                            if h.eval((0..n).map(|v| (v, a >> v & 1 == 1))) != t.get(a) {
                                ctx.violate(&["C14", "C15"], "cross-kind-denotation", format!("{:?}: capacity {}: root {} imported into a BDD manager differs from {} at assignment {:b}", ins, cap, i, dexp.short(), a));
                                break;
                            }
                        }
                    }
                    drop(handles);
                }
            }
            let left = other.with_manager_shared(|m| {
                m.gc();
                m.num_inner_nodes()
            });
            // a manager released before its collector thread waits for signals leaks that thread
            // (and the store and the worker pool with it): see `Mach::drop`
            crate::run::await_manager_lifetime(born);
            drop(other);
            if left != 0 {
                ctx.violate(&["C14", "C05"], "cross-kind-leak", format!("{:?}: after an import into a BDD manager of capacity {} and dropping everything, gc leaves {} inner nodes", ins, cap, left));
                break;
            }
            if ctx.failed() {
                break;
            }
        }
    }

    // ---- stored-byte faults: every truncation point, seeded mutations ------------------
    if ctx.io_corrupt && !ctx.failed() {
        let before = s.mref.with_manager_shared(|m| m.num_inner_nodes());
        let budget_ok = |s: &Mach| !backend_has_capacity() || s.cfg.capacity >= 4096 || {
            let used = s.mref.with_manager_shared(|m| m.num_inner_nodes());
            (s.cfg.capacity as usize).saturating_sub(used) > 0
        };
        let trimmed_len = {
            let mut l = file.len();
            while l > 0 && file[l - 1].is_ascii_whitespace() {
                l -= 1;
            }
            l
        };
        for k in 0..file.len() {
            if !budget_ok(s) {
                break;
            }
            let mut f3 = 0;
            let r = import_bytes(s, &file[..k], RPlan::Plain, &mut f3);
            ctx.stats.bump("fault.io_truncation");
            if let Ok((hs, _)) = r {
                if k < trimmed_len {
                    ctx.violate(&["C15"], "truncated-accepted", format!("{:?}: file truncated at byte {} of {} was accepted with {} roots", ins, k, file.len(), hs.len()));
                    break;
                }
            }
        }
        for _ in 0..24 {
            if !budget_ok(s) || file.is_empty() {
                break;
            }
            let mut m = file.clone();
            let pos = rng.below(m.len() as u64) as usize;
            match rng.below(5) {
                0 => {
                    m[pos] ^= 1 << rng.below(8);
                    ctx.stats.bump("fault.io_bit_flip");
                }
                1 => {
                    m.remove(pos);
                    ctx.stats.bump("fault.io_byte_deleted");
                }
                2 => {
                    let b = m[pos];
                    m.insert(pos, b);
                    ctx.stats.bump("fault.io_byte_duplicated");
                }
                3 => {
                    m[pos] = rng.next() as u8;
                    ctx.stats.bump("fault.io_byte_replaced");
                }
                _ => {
                    // swap two lines
                    let mut lines: Vec<&[u8]> = m.split(|b| *b == b'\n').collect();
                    if lines.len() > 3 {
                        let a = rng.below(lines.len() as u64 - 1) as usize;
                        let b2 = rng.below(lines.len() as u64 - 1) as usize;
                        lines.swap(a, b2);
                        m = lines.join(&b'\n');
                    }
                    ctx.stats.bump("fault.io_lines_swapped");
                }
            }
            let mut f4 = 0;
            // Err, or Ok with well-formed handles (checked by the audit below); never a panic
            if let Ok((hs, _)) = import_bytes(s, &m, RPlan::Plain, &mut f4) {
                ctx.stats.bump("probe.dddmp_mutant_accepted");
                if std::env::var_os("VERIF_DUMP_ACCEPTED").is_some() {
                    eprintln!("---- accepted damaged file ----\n{}\n---- original ----\n{}", String::from_utf8_lossy(&m), String::from_utf8_lossy(&file));
                }
                // keep them alive until the audit has seen them
                s.scratch.extend(hs);
            }
        }
        // over-long 7-bit integer in the binary node section: a continuation group with a set
        // bit followed by nine empty continuation groups in front of an integer makes its
        // value >= 2^70, which no usize holds - the importer must refuse the file
        let ints = binary_integer_offsets(&file);
        if !ints.is_empty() {
            ctx.stats.bump("probe.dddmp_binary_integers_located");
        }
        for _ in 0..2 {
            if ints.is_empty() || !budget_ok(s) {
                break;
            }
            let pos = ints[rng.below(ints.len() as u64) as usize];
            let mut m = file[..pos].to_vec();
            m.push(0x03);
            m.extend_from_slice(&[0x01; 9]);
            m.extend_from_slice(&file[pos..]);
            ctx.stats.bump("fault.io_overlong_integer");
            let mut f5 = 0;
            if let Ok((hs, _)) = import_bytes(s, &m, RPlan::Plain, &mut f5) {
                ctx.violate(&["C15"], "overlong-integer-accepted", format!("{:?}: binary file with an integer >= 2^70 at byte {} of {} was accepted with {} roots", ins, pos, file.len(), hs.len()));
                break;
            }
        }
        let after = s.mref.with_manager_shared(|m| m.num_inner_nodes());
        ctx.stats.add("probe.dddmp_garbage_nodes", (after.saturating_sub(before)) as u64);
    }
    true
}


/// Independent reading of the binary node section of a DDDMP file (written from the format
/// description, shares nothing with the importer): the offsets at which a 7-bit encoded
/// integer starts. Empty for ASCII files and for anything this reader does not follow to
/// the `.end` line.
fn binary_integer_offsets(file: &[u8]) -> Vec<usize> {
    fn find(h: &[u8], n: &[u8]) -> Option<usize> {
        h.windows(n.len()).position(|w| w == n)
    }
    let Some(nodes_at) = find(file, b"\n.nodes\n") else { return Vec::new() };
    let header = &file[..nodes_at + 1];
    if find(header, b"\n.mode B").is_none() {
        return Vec::new();
    }
    let Some(nn) = find(header, b"\n.nnodes ") else { return Vec::new() };
    let mut nnodes = 0usize;
    for &b in &header[nn + 9..] {
        if b.is_ascii_digit() {
            nnodes = nnodes * 10 + (b - b'0') as usize;
        } else {
            break;
        }
    }
    let mut pos = nodes_at + 8;
    let unescaped = |pos: &mut usize| -> Option<u8> {
        let b = *file.get(*pos)?;
        *pos += 1;
        if b != 0 {
            return Some(b);
        }
        let c = *file.get(*pos)?;
        *pos += 1;
        match c {
            0 => Some(0x00),
            1 => Some(0x0a),
            2 => Some(0x0d),
            3 => Some(0x1a),
            _ => None,
        }
    };
    let mut out = Vec::new();
    for _ in 0..nnodes {
        let Some(code) = unescaped(&mut pos) else { return Vec::new() };
        for part in [(code >> 5) & 3, (code >> 3) & 3, code & 3] {
            if part == 1 || part == 2 {
                out.push(pos);
                loop {
                    let Some(b) = unescaped(&mut pos) else { return Vec::new() };
                    if b & 1 == 0 {
                        break;
                    }
                }
            }
        }
    }
    if file[pos..].starts_with(b".end") {
        out
    } else {
        Vec::new()
    }
}
