//! MTBDD machine with extended-integer terminals
use oxidd::mtbdd::terminal::I64;
pub type T = I64;
pub const KIND: Kind = Kind::MtbddI;
fn to_scalar(t: &T) -> Scalar {
    match t {
        I64::NaN => Scalar::NaN,
        I64::MinusInf => Scalar::NegInf,
        I64::PlusInf => Scalar::PosInf,
        I64::Num(i) => Scalar::Int(*i),
    }
}
fn from_scalar(s: Scalar) -> T {
    match s {
        Scalar::Int(i) => I64::Num(i),
        Scalar::PosInf => I64::PlusInf,
        Scalar::NegInf => I64::MinusInf,
        Scalar::NaN => I64::NaN,
        Scalar::F(_) => unreachable!(),
    }
}
include!("mtbdd_body.rs");
