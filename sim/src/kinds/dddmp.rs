//! DDDMP round trips through the simulated disk (filled in later)
use crate::exec::RunCtx;
use crate::model::Model;
use crate::prog::Instr;

pub fn step_dddmp_bdd(_s: &mut crate::kinds::bdd::Mach, _ins: &Instr, _model: &mut Model, _ctx: &mut RunCtx) -> bool {
    false
}
pub fn step_dddmp_bcdd(_s: &mut crate::kinds::bcdd::Mach, _ins: &Instr, _model: &mut Model, _ctx: &mut RunCtx) -> bool {
    false
}
pub fn step_dddmp_zbdd(_s: &mut crate::kinds::zbdd::Mach, _ins: &Instr, _model: &mut Model, _ctx: &mut RunCtx) -> bool {
    false
}
