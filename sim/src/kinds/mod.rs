pub mod bcdd;
pub mod bdd;
#[cfg(not(feature = "pointer"))]
pub mod mtbdd_f;
#[cfg(not(feature = "pointer"))]
pub mod mtbdd_i;
pub mod tdd;
pub mod zbdd;
