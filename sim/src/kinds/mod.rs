pub mod bdd;
pub mod bcdd;
pub mod zbdd;
pub mod dddmp;
