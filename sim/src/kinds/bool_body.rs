// Included into the BDD, BCDD and ZBDD kind modules: everything of `BooleanFunction`.

use oxidd::BooleanFunction as _;
use oxidd::util::{OptBool, SatCountCache};
use std::cell::RefCell;
use std::hash::BuildHasherDefault;

use crate::tt::TT;

type FxBuild = BuildHasherDefault<rustc_hash::FxHasher>;

#[derive(Default)]
pub struct SatCaches {
    pub u64c: Vec<SatCountCache<oxidd::util::num::Saturating<u64>, FxBuild>>,
    pub u128c: Vec<SatCountCache<oxidd::util::num::Saturating<u128>, FxBuild>>,
    pub f64c: Vec<SatCountCache<oxidd::util::num::F64, FxBuild>>,
    pub natc: Vec<SatCountCache<oxidd::util::num::Natural, FxBuild>>,
}
impl SatCaches {
    fn ensure(&mut self) {
        while self.u64c.len() < NSATCACHE {
            self.u64c.push(SatCountCache::default());
            self.u128c.push(SatCountCache::default());
            self.f64c.push(SatCountCache::default());
            self.natc.push(SatCountCache::default());
        }
    }
}

pub fn make_cube(m: &Mach, pos: u32, neg: u32, n: u32) -> oxidd::util::AllocResult<F> {
    m.mref.with_manager_shared(|mg| {
        let mut cube = F::t(mg);
        for v in 0..n {
            let lit = if pos >> v & 1 == 1 {
                F::var(mg, v)?
            } else if neg >> v & 1 == 1 {
                F::not_var(mg, v)?
            } else {
                continue;
            };
            cube = cube.and(&lit)?;
        }
        Ok(cube)
    })
}

fn cube_tt(n: u32, cube: &[OptBool]) -> TT {
    let mut pos = 0;
    let mut neg = 0;
    for (v, c) in cube.iter().enumerate() {
        match c {
            OptBool::True => pos |= 1 << v,
            OptBool::False => neg |= 1 << v,
            OptBool::None => {}
        }
    }
    TT::cube(n, pos, neg)
}

/// if t is a conjunction of literals, return (pos, neg)
fn as_cube(t: &TT) -> Option<(u32, u32)> {
    if t.is_zero() {
        return None;
    }
    let mut pos = 0;
    let mut neg = 0;
    for v in 0..t.n {
        if t.cofactor(v, false).is_zero() {
            pos |= 1 << v;
        } else if t.cofactor(v, true).is_zero() {
            neg |= 1 << v;
        }
    }
    if TT::cube(t.n, pos, neg) == *t { Some((pos, neg)) } else { None }
}

fn bin_impl(op: BinOp, a: &F, b: &F) -> oxidd::util::AllocResult<F> {
    match op {
        BinOp::And => a.and(b),
        BinOp::Or => a.or(b),
        BinOp::Nand => a.nand(b),
        BinOp::Nor => a.nor(b),
        BinOp::Xor => a.xor(b),
        BinOp::Equiv => a.equiv(b),
        BinOp::Imp => a.imp(b),
        BinOp::ImpStrict => a.imp_strict(b),
    }
}

struct ChoiceLog {
    calls: Vec<(u32, bool, bool)>, // level, returned value, edge-was-inner-at-level
}

/// judge a cube (pos/neg masks over variables) against f, the order, the choice calls and
/// an optional literal set; returns a description of the first problem
fn judge_cube(
    f: &TT,
    order: &[u32],
    pos: u32,
    neg: u32,
    calls: Option<&[(u32, bool, bool)]>,
    lits: Option<(u32, u32)>,
) -> Result<(), String> {
    let n = f.n;
    let cube = TT::cube(n, pos, neg);
    if !cube.implies(f) {
        return Err(format!("cube +{:b} -{:b} does not imply the function {}", pos, neg, f.hex()));
    }
    let mut called = vec![None; n as usize];
    if let Some(calls) = calls {
        for &(level, ret, inner_ok) in calls {
            if level >= n {
                return Err(format!("choice called with level {} >= {}", level, n));
            }
            if !inner_ok {
                return Err(format!("choice called at level {} with an edge that is not an inner node of that level", level));
            }
            if called[level as usize].is_some() {
                return Err(format!("choice called twice for level {}", level));
            }
            called[level as usize] = Some(ret);
        }
    }
    // walk the order; g = f restricted by the cube literals decided so far
    let mut g = f.clone();
    for (level, &v) in order.iter().enumerate() {
        let val = if pos >> v & 1 == 1 {
            Some(true)
        } else if neg >> v & 1 == 1 {
            Some(false)
        } else {
            None
        };
        let g0 = g.cofactor(v, false);
        let g1 = g.cofactor(v, true);
        let forced = if g1.is_zero() {
            Some(false)
        } else if g0.is_zero() {
            Some(true)
        } else {
            None
        };
        if let Some(c) = called[level] {
            if val != Some(c) {
                return Err(format!("choice for level {} (variable {}) returned {} but the cube has {:?}", level, v, c, val));
            }
        } else if let Some(x) = val {
            if g0 == g1 {
                // the function does not depend on v here: don't care is possible
                let allowed = match lits {
                    Some((lp, ln)) => (lp >> v & 1 == 1 && x) || (ln >> v & 1 == 1 && !x),
                    None => false,
                };
                if !allowed && KIND != Kind::Zbdd {
                    return Err(format!("variable {} set to {} although it could be left don't care", v, x));
                }
            } else if let Some(fv) = forced {
                if fv != x {
                    return Err(format!("variable {} forced to {} but cube has {}", v, fv, x));
                }
            } else {
                // a real choice without a call to the choice function
                match lits {
                    Some((lp, ln)) => {
                        if lp >> v & 1 == 1 && !x {
                            return Err(format!("variable {} occurs positively in the literal set, is not forced, but the cube sets it to false", v));
                        }
                        if ln >> v & 1 == 1 && x {
                            return Err(format!("variable {} occurs negatively in the literal set, is not forced, but the cube sets it to true", v));
                        }
                    }
                    None => {
                        if calls.is_some() {
                            return Err(format!("variable {} = {} is neither forced nor chosen by the choice function", v, x));
                        }
                    }
                }
            }
        }
        if KIND == Kind::Zbdd && val.is_none() && called[level].is_none() && forced.is_none() {
            // In a ZBDD a variable the function does not care about still has a node (a skipped
            // level means false), so "there is a choice" in the documented sense and a literal of
            // the set must be honoured
            if let Some((lp, ln)) = lits {
                if (lp | ln) >> v & 1 == 1 {
                    return Err(format!("variable {} occurs in the literal set and is not forced, but the cube leaves it don't care", v));
                }
            }
        }
        g = match val {
            Some(true) => g1,
            Some(false) => g0,
            None => g0.and(&g1),
        };
    }
    Ok(())
}

fn decimal_of_shifted(count: u64, shift: u32) -> String {
    // count * 2^shift as a decimal string, by repeated doubling of a digit vector
    let mut digits: Vec<u8> = count.to_string().bytes().rev().map(|b| b - b'0').collect();
    for _ in 0..shift {
        let mut carry = 0;
        for d in digits.iter_mut() {
            let x = *d * 2 + carry;
            *d = x % 10;
            carry = x / 10;
        }
        if carry > 0 {
            digits.push(carry);
        }
    }
    digits.iter().rev().map(|d| (b'0' + d) as char).collect()
}

pub fn step_bool(s: &mut Mach, ins: &Instr, model: &mut Model, ctx: &mut RunCtx) -> bool {
    use Instr::*;
    let n = model.n;
    match ins {
        Const { val, .. } => {
            let v = *val;
            s.exec_eval(ins, model, ctx, |s| {
                vec![Some(Ok(s.mref.with_manager_shared(|m| if v { F::t(m) } else { F::f(m) })))]
            })
        }
        Var { v, .. } => {
            let v = *v as u32;
            s.exec_eval(ins, model, ctx, |s| vec![Some(s.mref.with_manager_shared(|m| F::var(m, v)))])
        }
        Table { bits, .. } => {
            let bits = *bits;
            s.exec_eval(ins, model, ctx, |s| {
                vec![Some(s.mref.with_manager_shared(|m| {
                    fn build<'id>(m: &Mgr<'id>, n: u32, v: u32, bits: u64, fixed: u32) -> oxidd::util::AllocResult<F> {
                        // variables >= v are fixed in `fixed`
                        if v == 0 {
                            return Ok(if bits >> fixed & 1 == 1 { F::t(m) } else { F::f(m) });
                        }
                        let hi = build(m, n, v - 1, bits, fixed | 1 << (v - 1))?;
                        let lo = build(m, n, v - 1, bits, fixed)?;
                        if hi == lo {
                            return Ok(hi);
                        }
                        F::var(m, v - 1)?.ite(&hi, &lo)
                    }
                    build(m, n, n, bits, 0)
                }))]
            })
        }
        NotVar { v, .. } => {
            let v = *v as u32;
            s.exec_eval(ins, model, ctx, |s| vec![Some(s.mref.with_manager_shared(|m| F::not_var(m, v)))])
        }
        Not { a, .. } => s.exec_eval(ins, model, ctx, |s| vec![Some(s.reg(*a).unwrap().not())]),
        NotOwned { d, a } => {
            if model.eval(ins).is_none() {
                return true;
            }
            // consumes the operand handle
            let f = s.regs[*a as usize].take().unwrap();
            let keep = model.regs[*a as usize].take();
            let exp = keep.as_ref().map(|k| Den::B(k.b().not()));
            let res = f.not_owned();
            s.put(*d, res, exp, model, ctx);
        }
        Bin { op, a, b, .. } => s.exec_eval(ins, model, ctx, |s| vec![Some(bin_impl(*op, s.reg(*a).unwrap(), s.reg(*b).unwrap()))]),
        Ite { a, b, c, .. } => {
            s.exec_eval(ins, model, ctx, |s| vec![Some(s.reg(*a).unwrap().ite(s.reg(*b).unwrap(), s.reg(*c).unwrap()))])
        }
        Cof { a, which, .. } => s.exec_eval(ins, model, ctx, |s| {
            let f = s.reg(*a).unwrap();
            match which {
                0 => match f.cofactors() {
                    Some((t, e)) => vec![Some(Ok(t)), Some(Ok(e))],
                    None => vec![None, None],
                },
                1 => vec![f.cofactor_true().map(Ok)],
                _ => vec![f.cofactor_false().map(Ok)],
            }
        }),
        SatValid { a } => {
            if let (Some(f), Some(d)) = (s.reg(*a), model.reg(*a)) {
                let (sat, valid) = (f.satisfiable(), f.valid());
                ctx.obs.u64(sat as u64 * 2 + valid as u64);
                if sat == d.b().is_zero() || valid != d.b().is_one() {
                    ctx.violate(&["C02"], "sat-valid", format!("r{} = {}: satisfiable() = {}, valid() = {}", a, d.short(), sat, valid));
                }
            }
        }
        BigCount { k } if KIND != Kind::Zbdd && s.cfg.capacity >= 4096 => {
            let k = (*k as u32).clamp(2, 14);
            let mut cfg2 = s.cfg.clone();
            cfg2.vars = 2 * k;
            cfg2.capacity = 1 << 17;
            let big = Mach::new(&cfg2);
            let f: oxidd::util::AllocResult<F> = big.mref.with_manager_shared(|m| {
                let mut acc = F::f(m);
                for i in 0..k {
                    let t = F::var(m, i)?.and(&F::var(m, k + i)?)?;
                    acc = acc.or(&t)?;
                }
                Ok(acc)
            });
            match f {
                Err(_) => ctx.violate(&["C03", "C14"], "big-count-oom", format!("{:?}: out of memory in a manager of 131072 nodes", ins)),
                Ok(f) => {
                    let nc = f.node_count();
                    // independent traversal through the public API
                    let walked = big.mref.with_manager_shared(|m| {
                        let mut seen = std::collections::HashSet::new();
                        let mut terms = std::collections::HashSet::new();
                        let mut stack = vec![f.as_edge(m).borrowed()];
                        while let Some(e) = stack.pop() {
                            match m.get_node(&e) {
                                oxidd::Node::Inner(n) => {
                                    if seen.insert(e.node_id()) {
                                        for c in n.children() {
                                            stack.push(c);
                                        }
                                    }
                                }
                                oxidd::Node::Terminal(_) => {
                                    terms.insert(e.node_id());
                                }
                            }
                        }
                        seen.len() + terms.len()
                    });
                    // inner nodes: 2^(k+1) - 2; terminals: 2 (BDD) or 1 (complement edges)
                    let exp = (1usize << (k + 1)) - 2 + if KIND == Kind::Bcdd { 1 } else { 2 };
                    ctx.obs.u64(nc as u64);
                    ctx.stats.bump("probe.big_count");
                    if nc != walked || nc != exp {
                        ctx.violate(&["C03", "C20"], "big-node-count", format!("{:?}: node_count() = {}, a traversal finds {}, the closed form is {}", ins, nc, walked, exp));
                    }
                }
            }
        }
        BigCount { .. } => {}
        EvalAll { a } => {
            if let (Some(f), Some(d)) = (s.reg(*a), model.reg(*a)) {
                let t = d.b();
                let total = 1u32 << n;
                let stride = if total > 256 { total / 256 } else { 1 };
                let mut a_idx = 0;
                while a_idx < total {
                    // documented: the order of the pairs is irrelevant, and if a variable is given
                    // several times the last value counts. Shapes by assignment index: ascending;
                    // descending; every variable first with the opposite, then with the real value
                    let real = |v: u32| (v, a_idx >> v & 1 == 1);
                    let got = match a_idx % 4 {
                        0 => f.eval((0..n).map(real)),
                        1 => f.eval((0..n).rev().map(real)),
                        2 => f.eval((0..n).map(|v| (v, a_idx >> v & 1 == 0)).chain((0..n).rev().map(real))),
                        // documented: a variable without a value counts as false
                        _ => f.eval((0..n).filter(|v| a_idx >> v & 1 == 1).map(real)),
                    };
                    if got != t.get(a_idx) {
                        ctx.violate(&["C02"], "eval", format!("eval(r{} = {}, assignment {:b}, argument shape {}) = {}", a, t.hex(), a_idx, a_idx % 4, got));
                        break;
                    }
                    a_idx += stride;
                }
            }
        }
        PickCube { a, choices } => {
            if let (Some(f), Some(d)) = (s.reg(*a), model.reg(*a)) {
                let log = RefCell::new(ChoiceLog { calls: vec![] });
                let ch = *choices;
                let res = f.pick_cube(|m, e, level| {
                    let ok = match m.get_node(e) {
                        oxidd::Node::Inner(nd) => nd.level() == level,
                        _ => false,
                    };
                    let r = ch >> (level % 32) & 1 == 1;
                    log.borrow_mut().calls.push((level, r, ok));
                    r
                });
                judge_pick(ins, d.b(), model, res.as_deref(), Some(&log.borrow().calls), None, ctx);
            }
        }
        PickCubeDd { d, a, choices } => {
            let (Some(f), Some(fd)) = (s.reg(*a).cloned(), model.reg(*a).cloned()) else { return true };
            let ch = *choices;
            let log = RefCell::new(ChoiceLog { calls: vec![] });
            let res = f.pick_cube_dd(|m, e, level| {
                let ok = match m.get_node(e) {
                    oxidd::Node::Inner(nd) => nd.level() == level,
                    _ => false,
                };
                let r = ch >> (level % 32) & 1 == 1;
                log.borrow_mut().calls.push((level, r, ok));
                r
            });
            // the same choices through pick_cube: must describe the same cube
            let cube = f.pick_cube(|_, _, level| ch >> (level % 32) & 1 == 1);
            let exp = match &cube {
                None => TT::zero(n),
                Some(c) => cube_tt(n, c),
            };
            if let Some(c) = &cube {
                let (p, ng) = as_cube(&cube_tt(n, c)).unwrap_or((0, 0));
                if let Err(e) = judge_cube(fd.b(), &model.order, p, ng, Some(&log.borrow().calls), None) {
                    ctx.violate(&["C13"], "pick-cube-dd", format!("{:?} on {}: {}", ins, fd.short(), e));
                }
            } else if !fd.b().is_zero() {
                ctx.violate(&["C13"], "pick-cube-none", format!("pick_cube returned None for satisfiable {}", fd.short()));
            }
            // result must denote exactly that cube (checked by the post-step audit)
            s.put(*d, res, Some(Den::B(exp)), model, ctx);
        }
        PickCubeDdSet { d, a, pos, neg } => {
            let (Some(f), Some(fd)) = (s.reg(*a).cloned(), model.reg(*a).cloned()) else { return true };
            let (p, ng) = (*pos & !*neg & ((1u32 << n) - 1), *neg & ((1u32 << n) - 1));
            let Ok(lits) = make_cube(s, p, ng, n) else {
                ctx.stats.bump("fault.oom_result");
                return true;
            };
            let res = f.pick_cube_dd_set(&lits);
            drop(lits);
            match res {
                Err(_) => s.put(*d, Err(oxidd::util::OutOfMemory), None, model, ctx),
                Ok(h) => {
                    // judge by predicate on the independent walk of the result
                    s.regs[*d as usize] = Some(h);
                    let mut snap = s.snapshot();
                    let e = snap.regs[*d as usize].unwrap();
                    match snap.den(e) {
                        Err(msg) => {
                            ctx.violate(&["C13", "C03"], "walk-failed", format!("r{}: {}", d, msg));
                            s.regs[*d as usize] = None;
                            model.regs[*d as usize] = None;
                        }
                        Ok(den) => {
                            let t = den.b().clone();
                            if fd.b().is_zero() {
                                if !t.is_zero() {
                                    ctx.violate(&["C13"], "pick-cube-set", format!("pick_cube_dd_set of ⊥ returned {}", t.hex()));
                                }
                            } else {
                                match as_cube(&t) {
                                    None => ctx.violate(&["C13"], "pick-cube-set", format!("{:?} on {}: result {} is not a cube", ins, fd.short(), t.hex())),
                                    Some((cp, cn)) => {
                                        if let Err(e) = judge_cube(fd.b(), &model.order, cp, cn, None, Some((p, ng))) {
                                            ctx.violate(&["C13"], "pick-cube-set", format!("{:?} on {}: {}", ins, fd.short(), e));
                                        }
                                    }
                                }
                            }
                            model.regs[*d as usize] = Some(Den::B(t));
                            s.written.push(*d);
                        }
                    }
                }
            }
        }
        PickUniform { a, seed, draws, cache } => {
            if let (Some(f), Some(d)) = (s.reg(*a).cloned(), model.reg(*a).cloned()) {
                s.x.sat.ensure();
                let t = d.b();
                let c = &mut s.x.sat.f64c[*cache as usize % NSATCACHE];
                c.cache_all = true;
                let mut rng = oxidd::util::Rng::new_seed(*seed);
                let mut aux = crate::rng::Rng::new(*seed, 77, crate::rng::STREAM_AUX);
                let models = t.count();
                let mut hist: HashMap<u32, u32> = HashMap::new();
                for i in 0..*draws {
                    let res = f.pick_cube_uniform(c, &mut rng);
                    match res {
                        None => {
                            if models != 0 {
                                ctx.violate(&["C13"], "pick-uniform-none", format!("pick_cube_uniform returned None for {}", t.hex()));
                            }
                            break;
                        }
                        Some(cube) => {
                            if models == 0 {
                                ctx.violate(&["C13"], "pick-uniform-some", "pick_cube_uniform returned a cube for ⊥".to_string());
                                break;
                            }
                            let ct = cube_tt(n, &cube);
                            if cube.len() != n as usize || !ct.implies(t) {
                                ctx.violate(&["C13"], "pick-uniform-nonmodel", format!("draw {}: cube {:?} does not imply {}", i, cube, t.hex()));
                                break;
                            }
                            // complete the cube uniformly to a minterm
                            let mut a_idx = 0u32;
                            for (v, cv) in cube.iter().enumerate() {
                                let bit = match cv {
                                    OptBool::True => true,
                                    OptBool::False => false,
                                    OptBool::None => aux.bool(),
                                };
                                if bit {
                                    a_idx |= 1 << v;
                                }
                            }
                            *hist.entry(a_idx).or_default() += 1;
                        }
                    }
                }
                if models > 0 && models <= 32 && *draws as u64 >= 40 * models && !ctx.failed() {
                    let exp = *draws as f64 / models as f64;
                    let tol = 7.0 * exp.sqrt() + 1.0;
                    for a_idx in 0..(1u32 << n) {
                        if t.get(a_idx) {
                            let o = hist.get(&a_idx).copied().unwrap_or(0) as f64;
                            if (o - exp).abs() > tol {
                                ctx.violate(
                                    &["C13"],
                                    "pick-uniform-bias",
                                    format!("model {:b} of {} drawn {} times in {}, expected {:.0}±{:.0}", a_idx, t.hex(), o, draws, exp, tol),
                                );
                                break;
                            }
                        }
                    }
                    ctx.stats.bump("probe.uniform_frequency_checked");
                }
            }
        }
        SatCount { a, ty, cache, extra_vars, cache_all } => {
            if let (Some(f), Some(d)) = (s.reg(*a).cloned(), model.reg(*a).cloned()) {
                s.x.sat.ensure();
                let ci = *cache as usize % NSATCACHE;
                let vars = if KIND == Kind::Zbdd { n } else { n + *extra_vars as u32 };
                let count = d.b().count();
                let shift = vars - n;
                match ty {
                    CountTy::U64 => {
                        let c = &mut s.x.sat.u64c[ci];
                        c.cache_all = *cache_all;
                        let r = f.sat_count(vars, c).0;
                        let ok = if vars <= 63 { r as u128 == (count as u128) << shift } else { r == u64::MAX || (count == 0 && r == 0) };
                        ctx.obs.u64(r);
                        if !ok {
                            ctx.violate(&["C12"], "sat-count-u64", format!("sat_count<u64>({}, vars={}) = {}, models over n={}: {}", d.short(), vars, r, n, count));
                        }
                    }
                    CountTy::U128 => {
                        let c = &mut s.x.sat.u128c[ci];
                        c.cache_all = *cache_all;
                        let r = f.sat_count(vars, c).0;
                        let ok = if vars <= 127 { r == (count as u128) << shift } else { r == u128::MAX || (count == 0 && r == 0) };
                        ctx.obs.u64(r as u64);
                        if !ok {
                            ctx.violate(&["C12"], "sat-count-u128", format!("sat_count<u128>({}, vars={}) = {}, models over n={}: {}", d.short(), vars, r, n, count));
                        }
                    }
                    CountTy::F64 => {
                        let c = &mut s.x.sat.f64c[ci];
                        c.cache_all = *cache_all;
                        let r = f.sat_count(vars, c).0;
                        let exp = count as f64 * (shift as f64).exp2();
                        let ok = if exp.is_finite() { (r - exp).abs() <= exp * 1e-9 } else { r.is_infinite() || count == 0 };
                        ctx.obs.u64(r.to_bits());
                        if !ok {
                            ctx.violate(&["C12"], "sat-count-f64", format!("sat_count<f64>({}, vars={}) = {}, expected {}", d.short(), vars, r, exp));
                        }
                    }
                    CountTy::Nat => {
                        let c = &mut s.x.sat.natc[ci];
                        c.cache_all = *cache_all;
                        let r = f.sat_count(vars, c);
                        let got = format!("{}", r);
                        let exp = decimal_of_shifted(count, shift);
                        ctx.obs.str(&got);
                        if got != exp {
                            ctx.violate(&["C12"], "sat-count-nat", format!("sat_count<Natural>({}, vars={}) = {}, expected {}", d.short(), vars, got, exp));
                        }
                    }
                }
                ctx.stats.bump("probe.sat_count");
            }
        }
        _ => return false,
    }
    true
}

fn judge_pick(
    ins: &Instr,
    f: &TT,
    model: &Model,
    res: Option<&[OptBool]>,
    calls: Option<&[(u32, bool, bool)]>,
    lits: Option<(u32, u32)>,
    ctx: &mut RunCtx,
) {
    match res {
        None => {
            if !f.is_zero() {
                ctx.violate(&["C13"], "pick-cube-none", format!("{:?}: None for satisfiable {}", ins, f.hex()));
            }
        }
        Some(cube) => {
            if f.is_zero() {
                ctx.violate(&["C13"], "pick-cube-some", format!("{:?}: cube {:?} for ⊥", ins, cube));
                return;
            }
            if cube.len() != f.n as usize {
                ctx.violate(&["C13"], "pick-cube-len", format!("{:?}: cube has {} entries, {} variables", ins, cube.len(), f.n));
                return;
            }
            let t = cube_tt(f.n, cube);
            let (p, ng) = as_cube(&t).unwrap();
            if let Err(e) = judge_cube(f, &model.order, p, ng, calls, lits) {
                ctx.violate(&["C13"], "pick-cube", format!("{:?} on {}: {}", ins, f.hex(), e));
            }
        }
    }
}

impl Mach {
    /// create fresh nodes until OutOfMemory; returns the node count at that moment
    pub fn fill_until_oom(&mut self, model: &mut Model, ctx: &mut RunCtx) -> Option<usize> {
        // make sure there are enough distinct functions
        let want = if self.cfg.capacity > 200 { 8 } else { 6 };
        if model.n < want {
            let k = want - model.n;
            if KIND == Kind::Zbdd && self.low_capacity((2 * model.n + k) as usize + 2, ctx) {
                return None;
            }
            self.mref.with_manager_exclusive(|m| m.add_vars(k));
            model.add_vars(k);
        }
        let n = model.n;
        let mut rng = crate::rng::Rng::new(self.cfg.capacity as u64, n as u64, crate::rng::STREAM_AUX);
        let mut held: Vec<F> = vec![];
        let vars: Option<Vec<F>> = self.mref.with_manager_shared(|m| (0..n).map(|v| F::var(m, v).ok()).collect());
        let mut oom = vars.is_none();
        if let Some(vars) = vars {
            let mut cur = vars[0].clone();
            for _ in 0..(self.cfg.capacity as usize * 4 + 64) {
                let v = &vars[rng.below(n as u64) as usize];
                let w = &vars[rng.below(n as u64) as usize];
                let r = match rng.below(4) {
                    0 => cur.xor(v),
                    1 => cur.and(v).and_then(|x| x.or(w)),
                    2 => cur.ite(v, w),
                    _ => cur.or(v).and_then(|x| x.xor(w)),
                };
                match r {
                    Ok(h) => {
                        held.push(cur);
                        cur = h;
                    }
                    Err(_) => {
                        oom = true;
                        break;
                    }
                }
            }
            held.push(cur);
            drop(vars);
        }
        let count = self.mref.with_manager_shared(|m| m.num_inner_nodes());
        drop(held);
        if !oom {
            ctx.stats.bump("probe.capacity_probe_no_oom");
            return None;
        }
        Some(count)
    }
}
