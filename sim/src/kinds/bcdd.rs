//! BCDD machine

pub type F = oxidd::bcdd::BCDDFunction;
pub type MRef = oxidd::bcdd::BCDDManagerRef;
pub const KIND: Kind = Kind::Bcdd;

fn new_manager(cfg: &Config) -> MRef {
    oxidd::bcdd::new_manager(cfg.capacity as usize, cfg.cache as usize, cfg.threads)
}
fn term_code(_t: &oxidd_rules_bdd::complement_edge::BCDDTerminal) -> TermCode {
    TermCode::Bool(true)
}
fn initial_nodes(_n: u32) -> usize {
    0
}
fn backend_has_capacity() -> bool {
    cfg!(not(feature = "pointer"))
}

#[derive(Default)]
pub struct Extra {
    pub sat: SatCaches,
}
impl Extra {
    fn handles(&self) -> Vec<&F> {
        vec![]
    }
    fn audit(&mut self, _s: &mut Snapshot, _model: &Model, _ctx: &mut RunCtx) {}
    fn clear(&mut self) {
        self.sat = SatCaches::default();
    }
}

fn step_kind(s: &mut Mach, ins: &Instr, model: &mut Model, ctx: &mut RunCtx) -> bool {
    step_bool(s, ins, model, ctx) || step_quant(s, ins, model, ctx) || step_dddmp(s, ins, model, ctx)
}

include!("../exec_body.rs");
include!("bool_body.rs");
include!("dddmp_body.rs");
fn complement_edge<'id>(m: &Mgr<'id>, e: Ed<'id>) -> oxidd::util::AllocResult<Ed<'id>> {
    use oxidd::BooleanFunction as _; F::not_edge_owned(m, e)
}
include!("quant_body.rs");
