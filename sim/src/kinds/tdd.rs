//! TDD machine
use oxidd::TVLFunction as _;
pub type F = oxidd::tdd::TDDFunction;
pub type MRef = oxidd::tdd::TDDManagerRef;
pub const KIND: Kind = Kind::Tdd;

fn new_manager(cfg: &Config) -> MRef {
    oxidd::tdd::new_manager(cfg.capacity as usize, cfg.cache as usize, cfg.threads)
}
fn term_code(t: &oxidd_rules_tdd::TDDTerminal) -> TermCode {
    use oxidd_rules_tdd::TDDTerminal as TT;
    TermCode::Tvl(match t {
        TT::False => 0,
        TT::Unknown => 1,
        TT::True => 2,
    })
}
fn initial_nodes(_n: u32) -> usize {
    0
}
fn backend_has_capacity() -> bool {
    cfg!(not(feature = "pointer"))
}

#[derive(Default)]
pub struct Extra {}
impl Extra {
    fn handles(&self) -> Vec<&F> {
        vec![]
    }
    fn audit(&mut self, _s: &mut Snapshot, _model: &Model, _ctx: &mut RunCtx) {}
    fn clear(&mut self) {}
}

fn tbin(op: BinOp, a: &F, b: &F) -> oxidd::util::AllocResult<F> {
    match op {
        BinOp::And => a.and(b),
        BinOp::Or => a.or(b),
        BinOp::Nand => a.nand(b),
        BinOp::Nor => a.nor(b),
        BinOp::Xor => a.xor(b),
        BinOp::Equiv => a.equiv(b),
        BinOp::Imp => a.imp(b),
        BinOp::ImpStrict => a.imp_strict(b),
    }
}

fn step_kind(s: &mut Mach, ins: &Instr, model: &mut Model, ctx: &mut RunCtx) -> bool {
    use Instr::*;
    let n = model.n;
    match ins {
        TConst { val, .. } => {
            let v = *val;
            s.exec_eval(ins, model, ctx, |s| {
                vec![Some(Ok(s.mref.with_manager_shared(|m| match v {
                    0 => F::f(m),
                    1 => F::t(m),
                    _ => F::u(m),
                })))]
            })
        }
        TVar { v, .. } => {
            let v = *v as u32;
            s.exec_eval(ins, model, ctx, |s| vec![Some(s.mref.with_manager_shared(|m| F::var(m, v)))])
        }
        TNot { a, .. } => s.exec_eval(ins, model, ctx, |s| vec![Some(s.reg(*a).unwrap().not())]),
        TNotEdgeOwned { a, .. } => s.exec_eval(ins, model, ctx, |s| {
            use oxidd::{Function as _, Manager as _};
            let f = s.reg(*a).unwrap();
            vec![Some(f.with_manager_shared(|m, e| {
                let owned = m.clone_edge(e);
                let r = F::not_edge_owned(m, owned)?;
                Ok(F::from_edge(m, r))
            }))]
        }),
        TBin { op, a, b, .. } => s.exec_eval(ins, model, ctx, |s| vec![Some(tbin(*op, s.reg(*a).unwrap(), s.reg(*b).unwrap()))]),
        TIte { a, b, c, .. } => {
            s.exec_eval(ins, model, ctx, |s| vec![Some(s.reg(*a).unwrap().ite(s.reg(*b).unwrap(), s.reg(*c).unwrap()))])
        }
        TCof { a, which, .. } => s.exec_eval(ins, model, ctx, |s| {
            let f = s.reg(*a).unwrap();
            match which {
                0 => match f.cofactors() {
                    Some((t, u, e)) => vec![Some(Ok(t)), Some(Ok(u)), Some(Ok(e))],
                    None => vec![None, None, None],
                },
                1 => vec![f.cofactor_true().map(Ok)],
                2 => vec![f.cofactor_unknown().map(Ok)],
                _ => vec![f.cofactor_false().map(Ok)],
            }
        }),
        EvalAll { a } => {
            if let (Some(f), Some(d)) = (s.reg(*a), model.reg(*a)) {
                let t = d.t();
                for a_idx in 0..crate::tvl::pow3(n) {
                    // documented: a variable that is not mentioned counts as unknown; every other
                    // assignment leaves its unknown variables out instead of passing None
                    let omit = a_idx % 2 == 1;
                    let args = (0..n).filter_map(|v| {
                        let c = (a_idx / crate::tvl::pow3(v)) % 3;
                        match c {
                            0 => Some((v, Some(false))),
                            2 => Some((v, Some(true))),
                            _ if omit => None,
                            _ => Some((v, None)),
                        }
                    });
                    let got = match f.eval(args) {
                        Some(false) => 0u8,
                        Some(true) => 2,
                        None => 1,
                    };
                    if got != t.v[a_idx] {
                        ctx.violate(&["C11"], "eval", format!("eval(r{} = {}, assignment #{}) = {}", a, t.short(), a_idx, got));
                        break;
                    }
                }
            }
        }
        _ => return false,
    }
    true
}

include!("../exec_body.rs");

impl Mach {
    pub fn fill_until_oom(&mut self, model: &mut Model, ctx: &mut RunCtx) -> Option<usize> {
        let want = 4;
        if model.n < want {
            let k = want - model.n;
            self.mref.with_manager_exclusive(|m| m.add_vars(k));
            model.add_vars(k);
        }
        let n = model.n;
        let mut rng = crate::rng::Rng::new(self.cfg.capacity as u64, n as u64, crate::rng::STREAM_AUX);
        let mut held: Vec<F> = vec![];
        let vars: Option<Vec<F>> = self.mref.with_manager_shared(|m| (0..n).map(|v| F::var(m, v).ok()).collect());
        let mut oom = vars.is_none();
        if let Some(vars) = vars {
            let mut cur = vars[0].clone();
            for _ in 0..(self.cfg.capacity as usize * 4 + 64) {
                let v = &vars[rng.below(n as u64) as usize];
                let w = &vars[rng.below(n as u64) as usize];
                let r = match rng.below(4) {
                    0 => cur.xor(v),
                    1 => cur.and(v).and_then(|x| x.or(w)),
                    2 => cur.ite(v, w),
                    _ => cur.imp(v).and_then(|x| x.equiv(w)),
                };
                match r {
                    Ok(h) => {
                        held.push(cur);
                        cur = h;
                    }
                    Err(_) => {
                        oom = true;
                        break;
                    }
                }
            }
            held.push(cur);
        }
        let count = self.mref.with_manager_shared(|m| m.num_inner_nodes());
        drop(held);
        if !oom {
            ctx.stats.bump("probe.capacity_probe_no_oom");
            return None;
        }
        Some(count)
    }
}
