// Included into the two MTBDD kind modules (I64 / F64 terminals), which define
// type T, const KIND, fn to_scalar(&T) -> Scalar, fn from_scalar(Scalar) -> T.

use oxidd::PseudoBooleanFunction as _;

pub type F = oxidd::mtbdd::MTBDDFunction<T>;
pub type MRef = oxidd::mtbdd::MTBDDManagerRef<T>;

fn new_manager(cfg: &Config) -> MRef {
    oxidd::mtbdd::new_manager(cfg.capacity as usize, cfg.term_capacity as usize, cfg.cache as usize, cfg.threads)
}
fn term_code(t: &T) -> TermCode {
    TermCode::Num(to_scalar(t))
}
fn initial_nodes(_n: u32) -> usize {
    0
}
fn backend_has_capacity() -> bool {
    true
}

#[derive(Default)]
pub struct Extra {}
impl Extra {
    fn handles(&self) -> Vec<&F> {
        vec![]
    }
    fn audit(&mut self, s: &mut Snapshot, _model: &Model, ctx: &mut RunCtx) {
        // every stored terminal VALUE appears once (numerically: -0.0 is 0.0, a NaN is a NaN)
        let norm = |c: &TermCode| match c {
            TermCode::Num(Scalar::F(b)) => {
                let x = f64::from_bits(*b);
                TermCode::Num(if x.is_nan() { Scalar::NaN } else if x == 0.0 { Scalar::F(0f64.to_bits()) } else { Scalar::F(*b) })
            }
            other => *other,
        };
        let mut seen: Vec<TermCode> = vec![];
        for c in s.terms.values() {
            let c = norm(c);
            if seen.contains(&c) {
                ctx.violate(&["C03", "C01"], "duplicate-terminal", format!("terminal value {:?} stored twice", c));
            }
            seen.push(c);
        }
    }
    fn clear(&mut self) {}
}

fn num_impl(op: NumOp, a: &F, b: &F) -> oxidd::util::AllocResult<F> {
    match op {
        NumOp::Add => a.add(b),
        NumOp::Sub => a.sub(b),
        NumOp::Mul => a.mul(b),
        NumOp::Div => a.div(b),
        NumOp::Min => oxidd::PseudoBooleanFunction::min(a, b),
        NumOp::Max => oxidd::PseudoBooleanFunction::max(a, b),
    }
}

fn make_num_cube(m: &Mach, pos: u32, neg: u32, n: u32) -> oxidd::util::AllocResult<F> {
    m.mref.with_manager_shared(|mg| {
        let one = F::constant(mg, from_scalar(Scalar::Int(1)))?;
        let mut cube = one.clone();
        for v in 0..n {
            let x = F::var(mg, v)?;
            let lit = if pos >> v & 1 == 1 {
                x
            } else if neg >> v & 1 == 1 {
                one.sub(&x)?
            } else {
                continue;
            };
            cube = cube.mul(&lit)?;
        }
        Ok(cube)
    })
}

fn step_kind(s: &mut Mach, ins: &Instr, model: &mut Model, ctx: &mut RunCtx) -> bool {
    use Instr::*;
    let n = model.n;
    match ins {
        NConst { val, .. } => {
            let Some(v) = crate::num::norm(KIND, *val) else { return true };
            s.exec_eval(ins, model, ctx, |s| vec![Some(s.mref.with_manager_shared(|m| F::constant(m, from_scalar(v))))])
        }
        NVar { v, .. } => {
            let v = *v as u32;
            s.exec_eval(ins, model, ctx, |s| vec![Some(s.mref.with_manager_shared(|m| F::var(m, v)))])
        }
        NBin { op, a, b, .. } => s.exec_eval(ins, model, ctx, |s| vec![Some(num_impl(*op, s.reg(*a).unwrap(), s.reg(*b).unwrap()))]),
        NIte { c, t, e, .. } => {
            s.exec_eval(ins, model, ctx, |s| vec![Some(s.reg(*c).unwrap().ite(s.reg(*t).unwrap(), s.reg(*e).unwrap()))])
        }
        NRestrict { a, pos, neg, .. } => {
            let mask = (1u32 << n) - 1;
            let (p, ng) = (*pos & !*neg & mask, *neg & mask);
            s.exec_eval(ins, model, ctx, |s| {
                let f = s.reg(*a).unwrap();
                vec![Some(make_num_cube(s, p, ng, n).and_then(|c| f.restrict(&c)))]
            })
        }
        EvalAll { a } => {
            if let (Some(f), Some(d)) = (s.reg(*a), model.reg(*a)) {
                let t = d.n();
                for a_idx in 0..(1u32 << n) {
                    let got = to_scalar(&f.eval((0..n).map(|v| (v, a_idx >> v & 1 == 1))));
                    if got != t.v[a_idx as usize] {
                        ctx.violate(&["C10"], "eval", format!("eval(r{} = {}, assignment {:b}) = {:?}", a, t.short(), a_idx, got));
                        break;
                    }
                }
            }
        }
        Dddmp { .. } => return step_dddmp(s, ins, model, ctx),
        _ => return false,
    }
    true
}

include!("../exec_body.rs");
include!("dddmp_body.rs");
fn complement_edge<'id>(_m: &Mgr<'id>, e: Ed<'id>) -> oxidd::util::AllocResult<Ed<'id>> {
    Ok(e)
}

impl Mach {
    pub fn fill_until_oom(&mut self, model: &mut Model, ctx: &mut RunCtx) -> Option<usize> {
        let want = 6;
        if model.n < want {
            let k = want - model.n;
            self.mref.with_manager_exclusive(|m| m.add_vars(k));
            model.add_vars(k);
        }
        let n = model.n;
        let mut rng = crate::rng::Rng::new(self.cfg.capacity as u64, n as u64, crate::rng::STREAM_AUX);
        let mut held: Vec<F> = vec![];
        let vars: Option<Vec<F>> = self.mref.with_manager_shared(|m| (0..n).map(|v| F::var(m, v).ok()).collect());
        let mut oom = vars.is_none();
        if let Some(vars) = vars {
            let mut cur = vars[0].clone();
            for _ in 0..(self.cfg.capacity as usize * 4 + 64) {
                let v = &vars[rng.below(n as u64) as usize];
                let w = &vars[rng.below(n as u64) as usize];
                let r = match rng.below(3) {
                    0 => cur.add(v),
                    1 => cur.mul(v).and_then(|x| x.add(w)),
                    _ => cur.sub(v).and_then(|x| x.mul(w)),
                };
                match r {
                    Ok(h) => {
                        held.push(cur);
                        cur = h;
                    }
                    Err(_) => {
                        oom = true;
                        break;
                    }
                }
            }
            held.push(cur);
        }
        let (count, terms) = self.mref.with_manager_shared(|m| (m.num_inner_nodes(), m.num_terminals()));
        drop(held);
        if !oom {
            ctx.stats.bump("probe.capacity_probe_no_oom");
            return None;
        }
        // the probe may also end because the terminal store is full
        if terms >= self.cfg.term_capacity as usize {
            ctx.stats.bump("probe.capacity_probe_terminals_full");
            return None;
        }
        Some(count)
    }
}
