// Included (via `include!`) into each kind module, which defines:
//   type F, type MRef, const KIND, fn new_manager(&Config) -> MRef,
//   fn term_code(&Terminal) -> TermCode, struct Extra (+ Default),
//   fn step_kind(&mut Mach, &Instr, &mut Model, &mut RunCtx) -> bool
// Everything here is compiled against the concrete oxidd types of that kind.

#[allow(unused_imports)]
use oxidd::{Edge as _, Function as _, HasWorkers as _, InnerNode as _, Manager as _, ManagerRef as _, WorkerPool as _};
#[allow(unused_imports)]
use oxidd_core::{Countable as _, HasLevel as _, LevelView as _};
use std::borrow::Borrow as _;
use std::collections::{HashMap, HashSet};
use std::hash::{Hash, Hasher};

use crate::exec::*;
use crate::model::{Den, Model};
use crate::prog::*;

type Mgr<'id> = <F as oxidd::Function>::Manager<'id>;
type Ed<'id> = <Mgr<'id> as oxidd::Manager>::Edge;

/// Reference to a node as recorded by a snapshot: node id, tag number, terminal?
#[derive(Clone, Copy, PartialEq, Eq, Hash, Debug, PartialOrd, Ord)]
pub struct ERef {
    pub id: usize,
    pub tag: usize,
    pub term: bool,
}

#[derive(Clone, Debug)]
pub struct SNode {
    /// level stored in the node
    pub level: u32,
    /// level view the node is listed in
    pub listed: u32,
    pub children: Vec<ERef>,
    pub rc: usize,
}

/// Everything the audits need, read through the public Manager API at a quiescent point
pub struct Snapshot {
    pub n: u32,
    pub l2v: Vec<u32>,
    pub v2l: Vec<u32>,
    pub nodes: HashMap<usize, SNode>,
    /// nodes listed more than once (id, level views)
    pub multi_listed: Vec<(usize, u32, u32)>,
    pub terms: HashMap<usize, TermCode>,
    pub regs: Vec<Option<ERef>>,
    pub extra_handles: Vec<ERef>,
    pub num_inner: usize,
    pub num_terminals: usize,
    pub num_named: u32,
    pub names: Vec<String>,
    pub gc_count: u64,
    pub reorder_count: u64,
    memo: HashMap<usize, Result<Den, String>>,
}

fn eref<'id>(m: &Mgr<'id>, e: &Ed<'id>, terms: &mut HashMap<usize, TermCode>) -> ERef {
    let id = e.node_id();
    let tag = e.tag().as_usize();
    match m.get_node(e) {
        oxidd::Node::Inner(_) => ERef { id, tag, term: false },
        oxidd::Node::Terminal(t) => {
            terms.entry(id).or_insert_with(|| term_code(t.borrow()));
            ERef { id, tag, term: true }
        }
    }
}

impl Snapshot {
    /// denotation of an edge by an independent node walk (memoised per node id)
    pub fn den(&mut self, e: ERef) -> Result<Den, String> {
        let base = self.den_node(e.id, e.term)?;
        Ok(if KIND == Kind::Bcdd && e.tag == 1 { negate_den(&base) } else { base })
    }
    fn den_node(&mut self, id: usize, term: bool) -> Result<Den, String> {
        if let Some(r) = self.memo.get(&id) {
            return r.clone();
        }
        let r = if term {
            match self.terms.get(&id) {
                Some(c) => terminal_den(KIND, self.n, *c),
                None => Err(format!("terminal id {} unknown", id)),
            }
        } else {
            match self.nodes.get(&id).cloned() {
                None => Err(format!("node {} is referenced but not stored in any level", id)),
                Some(nd) => {
                    if nd.listed >= self.n {
                        Err(format!("node {} listed at level {} >= {}", id, nd.listed, self.n))
                    } else {
                        let mut ch = Vec::with_capacity(nd.children.len());
                        let mut err = None;
                        for c in &nd.children {
                            if !c.term {
                                match self.nodes.get(&c.id) {
                                    Some(cn) if cn.listed > nd.listed => {}
                                    Some(cn) => {
                                        err = Some(format!(
                                            "node {}@L{} has child {}@L{} not strictly below",
                                            id, nd.listed, c.id, cn.listed
                                        ));
                                        break;
                                    }
                                    None => {
                                        err = Some(format!("node {} has child {} that is not stored", id, c.id));
                                        break;
                                    }
                                }
                            }
                            match self.den(*c) {
                                Ok(d) => ch.push(d),
                                Err(e) => {
                                    err = Some(e);
                                    break;
                                }
                            }
                        }
                        match err {
                            Some(e) => Err(e),
                            None => node_den(KIND, self.l2v[nd.listed as usize], &ch),
                        }
                    }
                }
            }
        };
        self.memo.insert(id, r.clone());
        r
    }
    /// number of nodes (inner + terminal) reachable from e
    pub fn reach_count(&self, e: ERef) -> usize {
        let mut seen: HashSet<(usize, bool)> = HashSet::new();
        let mut stack = vec![e];
        while let Some(x) = stack.pop() {
            if !seen.insert((x.id, x.term)) {
                continue;
            }
            if !x.term {
                if let Some(nd) = self.nodes.get(&x.id) {
                    stack.extend(nd.children.iter().copied());
                }
            }
        }
        seen.len()
    }
}

pub struct Mach {
    pub cfg: Config,
    pub mref: MRef,
    pub regs: Vec<Option<F>>,
    pub substs: Vec<Option<oxidd::Subst<F>>>,
    pub x: Extra,
    /// registers written by the current instruction
    pub written: Vec<Reg>,
    pub initial_nodes_for: fn(u32) -> usize,
    /// handles the harness keeps alive until the next instruction (e.g. roots imported
    /// from a mutated file, so that the audit sees them)
    pub scratch: Vec<F>,
    /// E2: handles produced by other simulated threads, with their model denotations
    pub foreign: Vec<(F, Den)>,
    pub created: std::time::Instant,
    pub is_view: bool,
}

/// The manager's collector thread only receives the Quit signal if it already waits on its
/// condition variable when the last reference is dropped; otherwise thread, worker pool and
/// node store leak (not one of the properties, but thousands of leaked threads per process
/// would exhaust the address space). Outside the simulator, give the thread time to start.
#[cfg(not(oxidd_verif))]
impl Drop for Mach {
    fn drop(&mut self) {
        if !self.is_view {
            crate::run::await_manager_lifetime(self.created);
        }
    }
}

impl Mach {
    pub fn new(cfg: &Config) -> Mach {
        let mref = new_manager(cfg);
        mref.with_manager_exclusive(|m| {
            if cfg.vars > 0 {
                m.add_vars(cfg.vars);
            }
        });
        mref.workers().set_split_depth(cfg.split_depth);
        Mach {
            cfg: cfg.clone(),
            mref,
            regs: (0..NREGS).map(|_| None).collect(),
            substs: (0..NSUBST).map(|_| None).collect(),
            x: Extra::default(),
            written: vec![],
            initial_nodes_for: initial_nodes,
            scratch: vec![],
            foreign: vec![],
            created: std::time::Instant::now(),
            is_view: false,
        }
    }

    pub fn reg(&self, r: Reg) -> Option<&F> {
        self.regs.get(r as usize).and_then(|x| x.as_ref())
    }

    pub fn snapshot(&self) -> Snapshot {
        let regs = &self.regs;
        let substs = &self.substs;
        let mut extra = self.x.handles();
        extra.extend(self.scratch.iter());
        extra.extend(self.foreign.iter().map(|x| &x.0));
        self.mref.with_manager_shared(|m| {
            let n = m.num_levels();
            let mut terms = HashMap::new();
            let mut nodes: HashMap<usize, SNode> = HashMap::new();
            let mut multi = vec![];
            for level in m.levels() {
                let lno = level.level_no();
                for e in level.iter() {
                    let id = e.node_id();
                    let node = m.get_node(e).unwrap_inner();
                    let children: Vec<ERef> = node.children().map(|c| eref(m, &c, &mut terms)).collect();
                    let sn = SNode { level: node.level(), listed: lno, children, rc: node.ref_count() };
                    if let Some(old) = nodes.insert(id, sn) {
                        multi.push((id, old.listed, lno));
                    }
                }
            }
            let l2v: Vec<u32> = (0..n).map(|l| m.level_to_var(l)).collect();
            let v2l: Vec<u32> = (0..n).map(|v| m.var_to_level(v)).collect();
            let rg: Vec<Option<ERef>> =
                regs.iter().map(|r| r.as_ref().map(|f| eref(m, f.as_edge(m), &mut terms))).collect();
            let mut xh = vec![];
            for s in substs.iter().flatten() {
                use oxidd::Substitution as _;
                for (_, f) in (&s).pairs() {
                    xh.push(eref(m, f.as_edge(m), &mut terms));
                }
            }
            for f in extra {
                xh.push(eref(m, f.as_edge(m), &mut terms));
            }
            Snapshot {
                n,
                l2v,
                v2l,
                num_inner: m.num_inner_nodes(),
                num_terminals: m.num_terminals(),
                num_named: m.num_named_vars(),
                names: (0..n).map(|v| m.var_name(v).to_string()).collect(),
                gc_count: m.gc_count(),
                reorder_count: m.reorder_count(),
                nodes,
                multi_listed: multi,
                terms,
                regs: rg,
                extra_handles: xh,
                memo: HashMap::new(),
            }
        })
    }

    /// store an operation result in register d (implementation and model)
    pub fn put(&mut self, d: Reg, res: oxidd::util::AllocResult<F>, exp: Option<Den>, model: &mut Model, ctx: &mut RunCtx) {
        match res {
            Ok(h) => {
                self.regs[d as usize] = Some(h);
                model.regs[d as usize] = exp;
                self.written.push(d);
            }
            Err(_) => {
                ctx.stats.bump("fault.oom_result");
                ctx.oom_seen = true;
                if !self.cfg.oom_ok {
                    ctx.violate(
                        &["C14", "C05"],
                        "unexpected-oom",
                        format!("operation returned OutOfMemory although capacity {} is ample", self.cfg.capacity),
                    );
                }
                self.regs[d as usize] = None;
                model.regs[d as usize] = None;
            }
        }
    }

    /// execute an instruction whose model semantics is given by `Model::eval` and whose
    /// implementation side is `f` (returns one result per expected write, in order)
    pub fn exec_eval(
        &mut self,
        ins: &Instr,
        model: &mut Model,
        ctx: &mut RunCtx,
        f: impl FnOnce(&Mach) -> Vec<Option<oxidd::util::AllocResult<F>>>,
    ) {
        let Some(writes) = model.eval(ins) else {
            ctx.stats.bump("instr.skipped");
            return;
        };
        let results = f(self);
        if results.len() != writes.len() {
            ctx.violate(&[prop_of(ins)], "result-arity", format!("{:?}: {} results, expected {}", ins, results.len(), writes.len()));
            return;
        }
        for ((d, exp), res) in writes.into_iter().zip(results) {
            match (res, exp) {
                (Some(r), Some(e)) => self.put(d, r, Some(e), model, ctx),
                (None, None) => {
                    self.regs[d as usize] = None;
                    model.regs[d as usize] = None;
                }
                (Some(Ok(_)), None) => {
                    ctx.violate(&[prop_of(ins)], "unexpected-some", format!("{:?}: implementation returned a handle, model expects none", ins));
                    self.regs[d as usize] = None;
                    model.regs[d as usize] = None;
                }
                (Some(Err(_)), None) => {
                    self.regs[d as usize] = None;
                    model.regs[d as usize] = None;
                }
                (None, Some(_)) => {
                    ctx.violate(&[prop_of(ins)], "unexpected-none", format!("{:?}: implementation returned nothing, model expects a handle", ins));
                    self.regs[d as usize] = None;
                    model.regs[d as usize] = None;
                }
            }
        }
    }

    fn step_common(&mut self, ins: &Instr, model: &mut Model, ctx: &mut RunCtx) -> bool {
        use Instr::*;
        match ins {
            Clone { d, a } => {
                self.exec_eval(ins, model, ctx, |s| vec![Some(Ok(s.reg(*a).unwrap().clone()))]);
                let _ = d;
            }
            NatOps { seed, count } => crate::big::nat_ops(*seed, *count, ctx),
            Drop { a } => {
                if (*a as usize) < NREGS {
                    self.regs[*a as usize] = None;
                    model.regs[*a as usize] = None;
                }
            }
            Gc => {
                let (before_i, before_t, gc0) =
                    self.mref.with_manager_shared(|m| (m.num_inner_nodes(), m.num_terminals(), m.gc_count()));
                let ret = self.mref.with_manager_shared(|m| m.gc());
                let (after_i, after_t, gc1) =
                    self.mref.with_manager_shared(|m| (m.num_inner_nodes(), m.num_terminals(), m.gc_count()));
                ctx.stats.bump("fault.gc");
                ctx.stats.add("gc.collected", ret as u64);
                let removed = (before_i + before_t) as i64 - (after_i + after_t) as i64;
                if removed != ret as i64 && !ctx.concurrent {
                    ctx.violate(
                        &["C05"],
                        "gc-return",
                        format!("gc() returned {} but {} nodes disappeared ({}+{} -> {}+{})", ret, removed, before_i, before_t, after_i, after_t),
                    );
                }
                if gc1 <= gc0 && !(ctx.concurrent && ret == 0) {
                    ctx.violate(&["C05", "C06"], "gc-count", format!("gc_count did not grow across gc(): {} -> {}", gc0, gc1));
                }
                // (not part of the observation digest: the number of dead intermediate
                // nodes legitimately depends on the cache configuration)
            }
            AddVars { k } | AddVarsInReorder { k } => {
                if model.n + *k as u32 > self.max_vars() {
                    return true;
                }
                if KIND == Kind::Zbdd && self.low_capacity((2 * model.n + *k as u32) as usize + 2, ctx) {
                    return true;
                }
                let pre = model.n;
                let nested = matches!(ins, AddVarsInReorder { .. });
                let range = self.mref.with_manager_exclusive(|m| if nested { m.reorder(|m| m.add_vars(*k as u32)) } else { m.add_vars(*k as u32) });
                model.add_vars(*k as u32);
                ctx.stats.bump("fault.add_vars");
                if range != (pre..pre + *k as u32) {
                    ctx.violate(&["C16"], "add-vars-range", format!("add_vars({}) returned {:?}, expected {:?}", k, range, pre..pre + *k as u32));
                }
            }
            AddNamed { names, fault } => {
                if model.n + names.len() as u32 > self.max_vars() {
                    return true;
                }
                if KIND == Kind::Zbdd && self.low_capacity(2 * model.n as usize + names.len() + 2, ctx) {
                    return true;
                }
                let limit = match fault {
                    IterFault::None => None,
                    IterFault::PanicAt(k) => Some(*k as usize),
                };
                let exp = model.add_named(names, limit);
                let will_panic = limit.is_some_and(|l| l < names.len()) && {
                    // the iterator only panics if the batch gets that far
                    match &exp {
                        Ok(_) => true,
                        Err(_) => false,
                    }
                };
                let names2 = names.clone();
                let mref = self.mref.clone();
                
                let res = std::panic::catch_unwind(std::panic::AssertUnwindSafe(|| {
                    mref.with_manager_exclusive(|m| {
                        let it = names2.iter().enumerate().map(|(i, s)| {
                            if Some(i) == limit {
                                panic!("injected: name iterator fails at item {}", i);
                            }
                            s.clone()
                        });
                        m.add_named_vars(it)
                    })
                }));
                
                ctx.stats.bump("fault.add_named");
                match res {
                    Err(_) => {
                        ctx.stats.bump("fault.name_iter_panic");
                        if !will_panic {
                            ctx.violate(&["C16"], "add-named-panic", format!("add_named_vars({:?}) panicked", names));
                        }
                    }
                    Ok(r) => {
                        if will_panic {
                            ctx.violate(&["C16"], "add-named-nopanic", "injected iterator panic was swallowed".to_string());
                        }
                        self.check_name_result(r, exp, ins, ctx);
                    }
                }
            }
            AddNamedMap { names } => {
                if model.n + names.len() as u32 > self.max_vars() {
                    return true;
                }
                if KIND == Kind::Zbdd && self.low_capacity(2 * model.n as usize + names.len() + 2, ctx) {
                    return true;
                }
                // the map itself requires unique names; build it from the unique prefix
                let mut map = oxidd_core::util::VarNameMap::new();
                let mut used: Vec<String> = vec![];
                for nm in names {
                    if !nm.is_empty() && used.contains(nm) {
                        break;
                    }
                    let _ = map.add_named([nm.clone()]);
                    used.push(nm.clone());
                }
                let exp = model.add_named(&used, None);
                let r = self.mref.with_manager_exclusive(|m| m.add_named_vars_from_map(map));
                ctx.stats.bump("fault.add_named_map");
                self.check_name_result(r, exp, ins, ctx);
            }
            SetName { v, name } => {
                if *v as u32 >= model.n {
                    return true;
                }
                let exp = model.set_name(*v as u32, name);
                let r = self.mref.with_manager_exclusive(|m| m.set_var_name(*v as u32, name.clone()));
                match (r, exp) {
                    (Ok(()), Ok(())) => {}
                    (Err(e), Err(x)) => {
                        if e.name != x.name || e.present_var != x.present_var {
                            ctx.violate(&["C16"], "set-name-err", format!("{:?}: error {:?}, expected {:?}", ins, e, x));
                        }
                    }
                    (r, x) => ctx.violate(&["C16"], "set-name-result", format!("{:?}: got {:?}, expected {:?}", ins, r, x)),
                }
            }
            Order { order, seq } => {
                if order.iter().any(|&v| v >= model.n) {
                    return true;
                }
                let mut seen = 0u64;
                for &v in order {
                    if seen >> v & 1 == 1 {
                        return true; // documented: panics on duplicates
                    }
                    seen |= 1 << v;
                }
                {
                    let used = self.mref.with_manager_shared(|m| m.num_inner_nodes());
                    if self.low_capacity(2 * used + 2 * model.n as usize + 8, ctx) {
                        return true;
                    }
                    // ZBDD diagrams grow much more during level swaps (every function mentions
                    // every variable above its support): with functions alive, reorder only when
                    // the capacity is ample (running out aborts: known finding F08)
                    let holds_functions = self.regs.iter().any(|r| r.is_some()) || !self.foreign.is_empty();
                    if KIND == Kind::Zbdd && (holds_functions || used > model.n as usize) && self.low_capacity(4096, ctx) {
                        return true;
                    }
                }
                let (rc0, gc0) = self.mref.with_manager_shared(|m| (m.reorder_count(), m.gc_count()));
                let observed: Vec<u32> = self.mref.with_manager_exclusive(|m| {
                    if *seq {
                        oxidd_reorder::set_var_order_seq(m, order)
                    } else {
                        oxidd_reorder::set_var_order(m, order)
                    }
                    (0..m.num_levels()).map(|l| m.level_to_var(l)).collect()
                });
                ctx.stats.bump("fault.reorder");
                if let Err(e) = model.check_order(order, &observed) {
                    ctx.violate(&["C08"], "order-contract", format!("{:?}: {}", ins, e));
                }
                let changed = observed != model.order;
                if observed.len() == model.n as usize {
                    model.order = observed.clone();
                }
                let (rc1, gc1) = self.mref.with_manager_shared(|m| (m.reorder_count(), m.gc_count()));
                if changed {
                    ctx.stats.bump("probe.order_changed");
                    if rc1 <= rc0 || gc1 <= gc0 {
                        ctx.violate(
                            &["C08", "C06", "C12"],
                            "reorder-count",
                            format!("order changed but reorder_count {}->{} gc_count {}->{}", rc0, rc1, gc0, gc1),
                        );
                    }
                }
                for v in observed {
                    ctx.obs.u64(v as u64);
                }
            }
            NodeCount { a } => {
                if let (Some(f), Some(d)) = (self.reg(*a), model.reg(*a)) {
                    let nc = f.node_count();
                    let exp = model.canon_size(d);
                    ctx.obs.u64(nc as u64);
                    if nc != exp {
                        ctx.violate(&["C03"], "node-count", format!("node_count(r{}) = {}, canonical size of {} is {}", a, nc, d.short(), exp));
                    }
                }
            }
            _ => return false,
        }
        true
    }

    /// Reordering and (for ZBDDs) adding variables have no error channel: running out of
    /// nodes inside them aborts the process (recorded as a known finding under C14). All
    /// other workloads stay clear of that situation.
    pub fn low_capacity(&self, need: usize, ctx: &mut RunCtx) -> bool {
        if !backend_has_capacity() || self.cfg.capacity >= 4096 || self.cfg.unguarded {
            return false;
        }
        let used = self.mref.with_manager_shared(|m| m.num_inner_nodes());
        let free = (self.cfg.capacity as usize).saturating_sub(used);
        if free < need {
            ctx.stats.bump("instr.skipped_low_capacity");
            true
        } else {
            false
        }
    }

    fn max_vars(&self) -> u32 {
        match KIND {
            Kind::Tdd => 4,
            Kind::MtbddI | Kind::MtbddF => 6,
            _ => 10,
        }
    }

    fn check_name_result(
        &self,
        r: Result<std::ops::Range<u32>, oxidd_core::error::DuplicateVarName>,
        exp: Result<std::ops::Range<u32>, crate::model::NameErr>,
        ins: &Instr,
        ctx: &mut RunCtx,
    ) {
        match (r, exp) {
            (Ok(a), Ok(b)) => {
                if a != b {
                    ctx.violate(&["C16"], "add-named-range", format!("{:?}: returned {:?}, expected {:?}", ins, a, b));
                }
            }
            (Err(e), Err(x)) => {
                ctx.stats.bump("probe.duplicate_name_rejected");
                if e.name != x.name || e.present_var != x.present_var || e.added_vars != x.added {
                    ctx.violate(&["C16"], "add-named-err", format!("{:?}: error {:?}, expected {:?}", ins, e, x));
                }
            }
            (r, x) => ctx.violate(&["C16"], "add-named-result", format!("{:?}: got {:?}, expected {:?}", ins, r, x)),
        }
    }

    /// Audits A1-A9, A11, A12 on a snapshot
    pub fn audit_impl(&mut self, ins: Option<&Instr>, model: &Model, ctx: &mut RunCtx) {
        if let Some(f) = ctx.pre_audit {
            f();
        }
        let mut s = self.snapshot();
        let n = s.n;
        ctx.peak_inner = ctx.peak_inner.max(s.num_inner);
        ctx.peak_terms = ctx.peak_terms.max(s.num_terminals);
        let ip = ins.map(prop_of).unwrap_or("C03");
        // A5 maps
        if n != model.n {
            ctx.violate(&["C03", "C16"], "num-levels", format!("num_levels {} but model has {} variables", n, model.n));
            return;
        }
        {
            let mut ok = s.l2v.len() == n as usize && s.v2l.len() == n as usize;
            if ok {
                for l in 0..n {
                    let v = s.l2v[l as usize];
                    if v >= n || s.v2l[v as usize] != l {
                        ok = false;
                    }
                }
            }
            if !ok {
                ctx.violate(&["C03", "C08"], "var-level-maps", format!("level_to_var {:?} / var_to_level {:?} are not inverse permutations", s.l2v, s.v2l));
                return;
            }
            if s.l2v != model.order {
                ctx.violate(&["C03", "C08"], "order-drift", format!("level_to_var {:?} differs from the order established last {:?}", s.l2v, model.order));
                return;
            }
        }
        // A12 names
        {
            if s.names != model.names {
                ctx.violate(&["C16"], "names", format!("var_name gives {:?}, model {:?}", s.names, model.names));
            }
            if s.num_named != model.num_named() {
                ctx.violate(&["C16"], "num-named", format!("num_named_vars {} but {} variables are named ({:?})", s.num_named, model.num_named(), model.names));
            }
            let mut probe: Vec<String> = model.names.iter().filter(|x| !x.is_empty()).cloned().collect();
            for extra in ["", "a", "b", "c", "d", "zz"] {
                probe.push(extra.to_string());
            }
            let got: Vec<Option<u32>> = self.mref.with_manager_shared(|m| probe.iter().map(|p| m.name_to_var(p)).collect());
            for (p, g) in probe.iter().zip(got) {
                let e = model.name_to_var(p);
                if g != e {
                    ctx.violate(&["C16"], "name-to-var", format!("name_to_var({:?}) = {:?}, expected {:?}", p, g, e));
                }
            }
        }
        // A3 listed exactly once at its own level, A1 ordered, A2 reduced, A4 unique, A6
        for (id, a, b) in &s.multi_listed {
            ctx.violate(&["C03"], "multi-listed", format!("node {} listed in levels {} and {}", id, a, b));
        }
        if s.num_inner != s.nodes.len() {
            ctx.violate(&["C03", "C05"], "num-inner", format!("num_inner_nodes {} but level views list {} nodes", s.num_inner, s.nodes.len()));
        }
        let mut by_children: HashMap<(u32, Vec<ERef>), usize> = HashMap::new();
        let mut ids: Vec<usize> = s.nodes.keys().copied().collect();
        ids.sort_unstable();
        for id in &ids {
            let nd = &s.nodes[id];
            if nd.level != nd.listed {
                ctx.violate(&["C03", "C08"], "level-mismatch", format!("node {} reports level {} but is listed in level {}", id, nd.level, nd.listed));
            }
            if nd.children.len() != KIND.arity() {
                ctx.violate(&["C03"], "arity", format!("node {} has {} children", id, nd.children.len()));
            }
            for c in &nd.children {
                if !c.term {
                    match s.nodes.get(&c.id) {
                        None => ctx.violate(&["C03", "C05"], "dangling-child", format!("node {}@L{} has child {} that is not stored", id, nd.listed, c.id)),
                        Some(cn) if cn.listed <= nd.listed => ctx.violate(
                            &["C03", "C08"],
                            "unordered",
                            format!("node {}@L{} has child {}@L{} not strictly below", id, nd.listed, c.id, cn.listed),
                        ),
                        _ => {}
                    }
                }
            }
            if let Err(e) = reduced_ok(&nd.children, &s.terms) {
                ctx.violate(&["C03"], "not-reduced", format!("node {}@L{}: {}", id, nd.listed, e));
            }
            if let Some(other) = by_children.insert((nd.listed, nd.children.clone()), *id) {
                ctx.violate(&["C03", "C01"], "duplicate-node", format!("nodes {} and {} at level {} have identical children {:?}", other, id, nd.listed, nd.children));
            }
        }
        // A8 exact reference counts
        {
            let mut expect: HashMap<usize, usize> = HashMap::new();
            for r in s.regs.iter().flatten().chain(s.extra_handles.iter()) {
                if !r.term {
                    *expect.entry(r.id).or_default() += 1;
                }
            }
            for nd in s.nodes.values() {
                for c in &nd.children {
                    if !c.term {
                        *expect.entry(c.id).or_default() += 1;
                    }
                }
            }
            match internal_refs(&s) {
                Ok(v) => {
                    for id in v {
                        *expect.entry(id).or_default() += 1;
                    }
                }
                Err(e) => ctx.violate(&["C03", "C09"], "internal-structure", e),
            }
            for id in &ids {
                let nd = &s.nodes[id];
                let e = expect.get(id).copied().unwrap_or(0);
                if nd.rc != e {
                    ctx.violate(
                        &["C05"],
                        "refcount",
                        format!("node {}@L{}: ref_count() = {}, holders (handles + parent edges + manager data) = {}", id, nd.listed, nd.rc, e),
                    );
                }
            }
            for (id, _) in expect.iter() {
                if !s.nodes.contains_key(id) {
                    ctx.violate(&["C05", "C03"], "referenced-not-stored", format!("node {} is referenced by a handle or parent but not stored", id));
                }
            }
            // A9: right after a collection no unreferenced node may remain
            if matches!(ins, Some(Instr::Gc)) {
                for id in &ids {
                    if expect.get(id).copied().unwrap_or(0) == 0 {
                        ctx.violate(&["C05"], "gc-incomplete", format!("node {}@L{} is unreferenced but survived gc()", id, s.nodes[id].listed));
                    }
                }
            }
            let dead = ids.iter().filter(|id| expect.get(id).copied().unwrap_or(0) == 0).count();
            if dead > 0 {
                ctx.stats.bump("probe.dead_nodes_present");
            }
        }
        // denotations of all registers vs model (+ A7 for written registers)
        let all_counts = matches!(ins, Some(Instr::Order { .. }) | Some(Instr::Gc));
        for r in 0..NREGS {
            let h = s.regs[r];
            let m = model.regs[r].as_ref();
            match (h, m) {
                (None, None) => {}
                (Some(e), Some(md)) => {
                    let written = self.written.contains(&(r as Reg));
                    match s.den(e) {
                        Err(msg) => ctx.violate(&[ip, "C03"], "walk-failed", format!("r{}: {}", r, msg)),
                        Ok(d) => {
                            if written {
                                ctx.obs.u64(d.digest());
                                ctx.ids.u64(e.id as u64 * 4 + e.tag as u64);
                            }
                            let judged_by_predicate = written && matches!(ins, Some(Instr::PickCubeDd { .. }) | Some(Instr::PickCubeDdSet { .. }));
                            if &d != md && !judged_by_predicate {
                                if written {
                                    ctx.violate(
                                        &[ip],
                                        "wrong-result",
                                        format!("{:?}: r{} denotes {}, model says {}", ins.unwrap(), r, d.short(), md.short()),
                                    );
                                } else {
                                    let p: &[&str] = match ins {
                                        Some(Instr::Gc) | Some(Instr::Drop { .. }) | Some(Instr::Clone { .. }) => &["C05"],
                                        Some(Instr::Order { .. }) => &["C08"],
                                        Some(Instr::AddVars { .. }) | Some(Instr::AddVarsInReorder { .. }) | Some(Instr::AddNamed { .. }) | Some(Instr::AddNamedMap { .. }) => {
                                            if KIND == Kind::Zbdd { &["C09", "C16"] } else { &["C16"] }
                                        }
                                        _ => &["C03", "C05"],
                                    };
                                    let mut pp = p.to_vec();
                                    if !pp.contains(&ip) {
                                        pp.push(ip);
                                    }
                                    ctx.violate(&pp, "handle-changed", format!("after {:?}: r{} now denotes {}, model says {}", ins, r, d.short(), md.short()));
                                }
                            }
                            if (written || all_counts) && &d == md {
                                let rc = s.reach_count(e);
                                let exp = model.canon_size(md);
                                if rc != exp {
                                    let mut p: Vec<&str> = if matches!(ins, Some(Instr::Order { .. })) { vec!["C03", "C08"] } else { vec!["C03"] };
                                    if written && !p.contains(&ip) {
                                        // the operation did not return the canonical diagram of its result
                                        p.push(ip);
                                    }
                                    ctx.violate(&p, "not-canonical-size", format!("r{} = {} has {} nodes, the reduced diagram has {}", r, md.short(), rc, exp));
                                }
                                if written {
                                    ctx.obs.u64(rc as u64);
                                }
                            }
                        }
                    }
                }
                (h, m) => ctx.violate(&["C03"], "register-sync", format!("harness defect: r{} impl {:?} model {:?}", r, h, m.map(|x| x.short()))),
            }
        }
        // A11 canonicity over all pairs of live registers
        {
            let live: Vec<usize> = (0..NREGS).filter(|&r| self.regs[r].is_some() && model.regs[r].is_some()).collect();
            for (i, &a) in live.iter().enumerate() {
                let fa = self.regs[a].as_ref().unwrap();
                let ha = {
                    let mut h = rustc_hash::FxHasher::default();
                    fa.hash(&mut h);
                    h.finish()
                };
                for &b in &live[i..] {
                    let fb = self.regs[b].as_ref().unwrap();
                    let eq_impl = fa == fb;
                    let eq_model = model.regs[a] == model.regs[b];
                    let hb = {
                        let mut h = rustc_hash::FxHasher::default();
                        fb.hash(&mut h);
                        h.finish()
                    };
                    let ord = fa.cmp(fb);
                    let ord_rev = fb.cmp(fa);
                    if eq_impl != eq_model {
                        let judged = self.written.iter().any(|w| *w as usize == a || *w as usize == b)
                            && matches!(ins, Some(Instr::PickCubeDd { .. }) | Some(Instr::PickCubeDdSet { .. }));
                        if !judged {
                            ctx.violate(
                                &["C01"],
                                "canonicity",
                                format!(
                                    "r{} {} r{} as handles, but model denotations are {} ({} vs {})",
                                    a,
                                    if eq_impl { "==" } else { "!=" },
                                    b,
                                    if eq_model { "equal" } else { "different" },
                                    model.regs[a].as_ref().unwrap().short(),
                                    model.regs[b].as_ref().unwrap().short()
                                ),
                            );
                        }
                    }
                    if eq_impl && ha != hb {
                        ctx.violate(&["C01"], "hash-eq", format!("r{} == r{} but hashes differ", a, b));
                    }
                    if (ord == std::cmp::Ordering::Equal) != eq_impl || ord != ord_rev.reverse() {
                        ctx.violate(&["C01"], "ord-eq", format!("r{} vs r{}: == is {} but cmp gives {:?}/{:?}", a, b, eq_impl, ord, ord_rev));
                    }
                }
            }
        }
        // E2: handles returned to other threads: denotation and canonicity across threads
        if !self.foreign.is_empty() {
            let base = s.extra_handles.len() - self.foreign.len();
            for (i, (_, md)) in self.foreign.iter().enumerate() {
                let e = s.extra_handles[base + i];
                match s.den(e) {
                    Err(msg) => ctx.violate(&["C07", "C03"], "walk-failed", format!("foreign handle {}: {}", i, msg)),
                    Ok(d) => {
                        if &d != md {
                            ctx.violate(&["C07", "C05"], "handle-changed", format!("handle {} returned to another thread now denotes {}, model says {}", i, d.short(), md.short()));
                        }
                    }
                }
            }
            let mut all: Vec<(&F, &Den)> = self.foreign.iter().map(|x| (&x.0, &x.1)).collect();
            for r in 0..NREGS {
                if let (Some(f), Some(d)) = (self.regs[r].as_ref(), model.regs[r].as_ref()) {
                    all.push((f, d));
                }
            }
            for i in 0..all.len() {
                for j in i + 1..all.len() {
                    if (all[i].0 == all[j].0) != (all[i].1 == all[j].1) {
                        ctx.violate(
                            &["C01", "C07"],
                            "canonicity",
                            format!("handles obtained on different threads: == is {} but denotations are {} / {}", all[i].0 == all[j].0, all[i].1.short(), all[j].1.short()),
                        );
                    }
                }
            }
        }
        self.x.audit(&mut s, model, ctx);
    }

    /// A10: drop everything, collect, initial node count, capacity probe
    pub fn finish_impl(&mut self, model: &mut Model, ctx: &mut RunCtx) {
        ctx.step = usize::MAX;
        for r in self.regs.iter_mut() {
            *r = None;
        }
        for r in model.regs.iter_mut() {
            *r = None;
        }
        for s in self.substs.iter_mut() {
            *s = None;
        }
        for s in model.substs.iter_mut() {
            *s = None;
        }
        self.x.clear();
        self.written.clear();
        self.scratch.clear();
        self.foreign.clear();
        let (ret, before, after, terms) = self.mref.with_manager_shared(|m| {
            let b = m.num_inner_nodes() + m.num_terminals();
            let r = m.gc();
            (r, b, m.num_inner_nodes(), m.num_terminals())
        });
        let init = (self.initial_nodes_for)(model.n);
        if after != init {
            ctx.violate(&["C05"], "not-initial", format!("after dropping all handles and gc(): {} inner nodes, initial count is {}", after, init));
        }
        if before as i64 - (after + terms) as i64 != ret as i64 {
            ctx.violate(&["C05"], "gc-return", format!("final gc() returned {} but {} nodes disappeared", ret, before as i64 - (after + terms) as i64));
        }
        if matches!(KIND, Kind::MtbddI | Kind::MtbddF) && terms != 0 {
            ctx.violate(&["C05", "C10"], "terminals-not-freed", format!("{} terminals remain after dropping all handles and gc()", terms));
        }
        self.audit_impl(Some(&Instr::Gc), model, ctx);
        if ctx.failed() || !self.cfg.probe || !backend_has_capacity() {
            return;
        }
        // capacity probe: fill the manager with fresh nodes until OutOfMemory; at that
        // moment every slot must hold a node, i.e. num_inner_nodes() == capacity
        ctx.stats.bump("probe.capacity_probe");
        let filled = self.fill_until_oom(model, ctx);
        if let Some(count) = filled {
            if count != self.cfg.capacity as usize {
                ctx.violate(
                    &["C05", "C14"],
                    "capacity-lost",
                    format!("manager reports OutOfMemory with {} stored nodes, capacity is {}", count, self.cfg.capacity),
                );
            }
        }
        let (after2, _) = self.mref.with_manager_shared(|m| {
            m.gc();
            (m.num_inner_nodes(), m.num_terminals())
        });
        let init2 = (self.initial_nodes_for)(model.n);
        if after2 != init2 {
            ctx.violate(&["C05", "C14"], "not-initial-after-probe", format!("after the capacity probe and gc(): {} inner nodes, initial count is {}", after2, init2));
        }
    }
}

impl Mach {
    /// a second register file on the same manager (for another simulated caller thread);
    /// the shared registers are cloned handles
    pub fn attach(&self) -> Mach {
        Mach {
            cfg: self.cfg.clone(),
            mref: self.mref.clone(),
            regs: self.regs.clone(),
            substs: self.substs.clone(),
            x: Extra::default(),
            written: vec![],
            initial_nodes_for: self.initial_nodes_for,
            scratch: vec![],
            foreign: vec![],
            created: self.created,
            is_view: true,
        }
    }

    /// denotation of one handle by a walk of the nodes reachable from it (safe while other
    /// threads operate on the manager: reachable nodes are immutable under the shared lock)
    pub fn den_light(&self, f: &F) -> Result<(Den, usize, ERef), String> {
        self.mref.with_manager_shared(|m| {
            let n = m.num_levels();
            let l2v: Vec<u32> = (0..n).map(|l| m.level_to_var(l)).collect();
            let mut terms = HashMap::new();
            let mut nodes: HashMap<usize, SNode> = HashMap::new();
            let root = eref(m, f.as_edge(m), &mut terms);
            // collect reachable nodes
            fn visit<'id>(m: &Mgr<'id>, e: &Ed<'id>, nodes: &mut HashMap<usize, SNode>, terms: &mut HashMap<usize, TermCode>) {
                let id = e.node_id();
                if nodes.contains_key(&id) {
                    return;
                }
                if let oxidd::Node::Inner(node) = m.get_node(e) {
                    let children: Vec<ERef> = node.children().map(|c| eref(m, &c, terms)).collect();
                    nodes.insert(id, SNode { level: node.level(), listed: node.level(), children, rc: node.ref_count() });
                    for c in node.children() {
                        visit(m, &c, nodes, terms);
                    }
                }
            }
            visit(m, f.as_edge(m), &mut nodes, &mut terms);
            let mut s = Snapshot {
                n,
                v2l: (0..n).map(|v| m.var_to_level(v)).collect(),
                l2v,
                nodes,
                multi_listed: vec![],
                terms,
                regs: vec![],
                extra_handles: vec![],
                num_inner: 0,
                num_terminals: 0,
                num_named: 0,
                names: vec![],
                gc_count: 0,
                reorder_count: 0,
                memo: HashMap::new(),
            };
            let d = s.den(root)?;
            let cnt = s.reach_count(root);
            Ok((d, cnt, root))
        })
    }

    /// E2: judge the registers written by this instruction through walks of the handles
    fn judge_written(&mut self, ins: &Instr, model: &Model, ctx: &mut RunCtx) {
        let ip = prop_of(ins);
        for &r in &self.written.clone() {
            let (Some(f), Some(md)) = (self.regs[r as usize].as_ref(), model.regs[r as usize].as_ref()) else { continue };
            match self.den_light(f) {
                Err(msg) => ctx.violate(&[ip, "C07", "C03"], "walk-failed", format!("{:?}: r{}: {}", ins, r, msg)),
                Ok((d, cnt, root)) => {
                    ctx.obs.u64(d.digest());
                    ctx.ids.u64(root.id as u64 * 4 + root.tag as u64);
                    if &d != md {
                        ctx.violate(&[ip, "C07"], "wrong-result", format!("{:?}: r{} denotes {}, model says {}", ins, r, d.short(), md.short()));
                    } else if !ctx.order_unstable && cnt != model.canon_size(md) {
                        ctx.violate(&["C03", "C07"], "not-canonical-size", format!("{:?}: r{} = {} has {} nodes, the reduced diagram has {}", ins, r, md.short(), cnt, model.canon_size(md)));
                    }
                }
            }
        }
    }
}

/// kind's reduction rule on a node's children
fn reduced_ok(ch: &[ERef], terms: &HashMap<usize, TermCode>) -> Result<(), String> {
    match KIND {
        Kind::Bdd | Kind::MtbddI | Kind::MtbddF => {
            if ch.len() == 2 && ch[0] == ch[1] {
                return Err("both children equal".into());
            }
        }
        Kind::Bcdd => {
            if ch.len() == 2 && ch[0] == ch[1] {
                return Err("both children equal".into());
            }
            if ch[0].tag != 0 {
                return Err("then-edge is complemented".into());
            }
        }
        Kind::Zbdd => {
            if ch[0].term && terms.get(&ch[0].id) == Some(&TermCode::Bool(false)) {
                return Err("hi child is the empty terminal".into());
            }
        }
        Kind::Tdd => {
            if ch.len() == 3 && ch[0] == ch[1] && ch[1] == ch[2] {
                return Err("all three children equal".into());
            }
        }
    }
    Ok(())
}

/// node ids referenced once each by manager-internal data (ZBDD tautology chain)
fn internal_refs(s: &Snapshot) -> Result<Vec<usize>, String> {
    if KIND != Kind::Zbdd {
        return Ok(vec![]);
    }
    // chain[l] = node at level l whose two children are chain[l+1]; chain[n] = Base
    let mut out = vec![];
    let mut prev: Option<ERef> = None; // None = Base terminal
    for l in (0..s.n).rev() {
        let mut found = None;
        for (id, nd) in s.nodes.iter() {
            if nd.listed != l || nd.children.len() != 2 || nd.children[0] != nd.children[1] {
                continue;
            }
            let c = nd.children[0];
            let ok = match prev {
                None => c.term && s.terms.get(&c.id) == Some(&TermCode::Bool(true)),
                Some(p) => c == p,
            };
            if ok {
                found = Some(*id);
                break;
            }
        }
        match found {
            Some(id) => {
                out.push(id);
                prev = Some(ERef { id, tag: 0, term: false });
            }
            None => return Err(format!("ZBDD tautology chain has no node at level {}", l)),
        }
    }
    Ok(out)
}

impl Machine for Mach {
    fn step(&mut self, ins: &Instr, model: &mut Model, ctx: &mut RunCtx) {
        self.written.clear();
        self.scratch.clear();
        let stepno = ctx.step;
        ctx.logf(|| format!("step {} {:?}", stepno, ins));
        ctx.stats.bump("instr.total");
        let nv = ctx.violations.len();
        if !self.step_common(ins, model, ctx) && !step_kind(self, ins, model, ctx) {
            ctx.stats.bump("instr.unsupported");
        }
        if ctx.concurrent {
            self.judge_written(ins, model, ctx);
        } else if ctx.audits {
            self.audit_impl(Some(ins), model, ctx);
        }
        if matches!(ins, Instr::Dddmp { .. }) {
            // C15: whatever an import leaves behind (also of a damaged file it accepted) must be a
            // well-formed, canonical diagram
            for v in ctx.violations.iter_mut().skip(nv) {
                if !v.props.iter().any(|p| p == "C15") {
                    v.props.push("C15".into());
                }
            }
        }
        if KIND == Kind::Zbdd {
            // C09: the Boolean view of ZBDD handles is part of the family-semantics property
            for v in ctx.violations.iter_mut().skip(nv) {
                if v.props.iter().any(|p| p == "C02") && !v.props.iter().any(|p| p == "C09") {
                    v.props.push("C09".into());
                }
            }
        }
    }
    fn audit(&mut self, model: &Model, ctx: &mut RunCtx) {
        self.written.clear();
        self.audit_impl(None, model, ctx);
    }
    fn finish(&mut self, model: &mut Model, ctx: &mut RunCtx) {
        self.finish_impl(model, ctx);
    }
    fn attach_boxed(&self) -> Box<dyn Machine + Send> {
        Box::new(self.attach())
    }
    fn export_live(&mut self, model: &mut Model) -> Box<dyn std::any::Any + Send> {
        let mut out: Vec<(F, Den)> = vec![];
        for r in 0..NREGS {
            if let (Some(f), Some(d)) = (self.regs[r].take(), model.regs[r].take()) {
                out.push((f, d));
            }
        }
        for sl in 0..NSUBST {
            self.substs[sl] = None;
            model.substs[sl] = None;
        }
        self.x.clear();
        self.scratch.clear();
        Box::new(out)
    }
    fn import_foreign(&mut self, handles: Box<dyn std::any::Any + Send>) {
        if let Ok(v) = handles.downcast::<Vec<(F, Den)>>() {
            self.foreign.extend(*v);
        }
    }
    fn clear_foreign(&mut self) {
        self.foreign.clear();
    }
    fn retry(&mut self, ins: &Instr, model: &mut Model, ctx: &mut RunCtx) -> Option<RetryInfo> {
        let keep = ins.operands();
        if keep.iter().any(|r| self.reg(*r).is_none()) {
            return None;
        }
        for r in 0..NREGS {
            if !keep.contains(&(r as Reg)) {
                self.regs[r] = None;
                model.regs[r] = None;
            }
        }
        for sl in 0..NSUBST {
            if ins.subst_slot() != Some(sl as u8) {
                self.substs[sl] = None;
                model.substs[sl] = None;
            }
        }
        if ins.subst_slot().is_some_and(|sl| self.substs[sl as usize].is_none()) {
            return None;
        }
        self.x.clear();
        self.written.clear();
        self.scratch.clear();
        let (live, live_terms) = self.mref.with_manager_shared(|m| {
            m.gc();
            (m.num_inner_nodes(), m.num_terminals())
        });
        let writes = model.eval(ins);
        let inputs = {
            let mut h = crate::rng::Fnv::default();
            h.u64(model.n as u64);
            for v in &model.order {
                h.u64(*v as u64);
            }
            for r in &keep {
                h.u64(model.reg(*r).map(|d| d.digest()).unwrap_or(0));
            }
            if let Some(sl) = ins.subst_slot() {
                for (v, d) in model.substs[sl as usize].iter().flatten() {
                    h.u64(*v as u64);
                    h.u64(d.digest());
                }
            }
            h.0
        };
        self.step(ins, model, ctx);
        let (after, after_terms) = self.mref.with_manager_shared(|m| (m.num_inner_nodes(), m.num_terminals()));
        let ok = match &writes {
            Some(w) => w.iter().all(|(d, e)| e.is_none() || self.regs[*d as usize].is_some()),
            None => return None,
        };
        Some(RetryInfo {
            live,
            delta: after.saturating_sub(live),
            live_terms,
            delta_terms: after_terms.saturating_sub(live_terms),
            ok,
            inputs,
        })
    }
}
