//! Value-table model for MTBDDs with an exact extended-integer arithmetic (i128, then
//! range test) and an IEEE model for the f64 terminals with the documented NaN / -0
//! normalisation. Written from the property statement and the doc comments.

use crate::prog::{Kind, NumOp, Scalar};
use serde::{Deserialize, Serialize};
use std::collections::HashMap;

#[derive(Clone, PartialEq, Eq, Hash, Debug, Serialize, Deserialize)]
pub struct NumTab {
    pub n: u32,
    pub v: Vec<Scalar>,
}

pub fn norm_f(x: f64) -> Scalar {
    if x.is_nan() {
        Scalar::F(f64::NAN.to_bits())
    } else if x == 0.0 {
        Scalar::F(0f64.to_bits())
    } else {
        Scalar::F(x.to_bits())
    }
}

/// normalise a scalar for the given kind; None if not representable in that kind
pub fn norm(kind: Kind, s: Scalar) -> Option<Scalar> {
    match kind {
        Kind::MtbddI => match s {
            Scalar::F(_) => None,
            x => Some(x),
        },
        Kind::MtbddF => Some(match s {
            Scalar::Int(i) => norm_f(i as f64),
            Scalar::F(b) => norm_f(f64::from_bits(b)),
            Scalar::PosInf => norm_f(f64::INFINITY),
            Scalar::NegInf => norm_f(f64::NEG_INFINITY),
            Scalar::NaN => norm_f(f64::NAN),
        }),
        _ => None,
    }
}

fn from_i128(x: i128) -> Scalar {
    if x > i64::MAX as i128 {
        Scalar::PosInf
    } else if x < i64::MIN as i128 {
        Scalar::NegInf
    } else {
        Scalar::Int(x as i64)
    }
}

fn sign(s: Scalar) -> i32 {
    match s {
        Scalar::Int(i) => i.signum() as i32,
        Scalar::PosInf => 1,
        Scalar::NegInf => -1,
        _ => 0,
    }
}

pub fn scalar_op_i(op: NumOp, a: Scalar, b: Scalar) -> Scalar {
    use Scalar::*;
    if a == NaN || b == NaN {
        return NaN;
    }
    match op {
        NumOp::Add => match (a, b) {
            (Int(x), Int(y)) => from_i128(x as i128 + y as i128),
            (PosInf, NegInf) | (NegInf, PosInf) => NaN,
            (PosInf, _) | (_, PosInf) => PosInf,
            (NegInf, _) | (_, NegInf) => NegInf,
            _ => unreachable!(),
        },
        NumOp::Sub => match (a, b) {
            (Int(x), Int(y)) => from_i128(x as i128 - y as i128),
            (PosInf, PosInf) | (NegInf, NegInf) => NaN,
            (PosInf, _) | (_, NegInf) => PosInf,
            (NegInf, _) | (_, PosInf) => NegInf,
            _ => unreachable!(),
        },
        NumOp::Mul => match (a, b) {
            (Int(x), Int(y)) => from_i128(x as i128 * y as i128),
            _ => match sign(a) * sign(b) {
                1 => PosInf,
                -1 => NegInf,
                _ => NaN, // 0 * inf
            },
        },
        NumOp::Div => match (a, b) {
            (Int(x), Int(0)) => match x.signum() {
                1 => PosInf,
                -1 => NegInf,
                _ => NaN,
            },
            (Int(x), Int(y)) => from_i128(x as i128 / y as i128),
            (Int(_), PosInf | NegInf) => Int(0),
            (PosInf | NegInf, PosInf | NegInf) => NaN,
            (PosInf | NegInf, Int(y)) => {
                // x/0 = ±inf by the sign of x
                let sy = if y < 0 { -1 } else { 1 };
                if sign(a) * sy > 0 { PosInf } else { NegInf }
            }
            _ => unreachable!(),
        },
        NumOp::Min | NumOp::Max => {
            let lt = match (a, b) {
                (Int(x), Int(y)) => x < y,
                (NegInf, NegInf) | (PosInf, PosInf) => false,
                (NegInf, _) | (_, PosInf) => true,
                _ => false,
            };
            if (op == NumOp::Min) == lt { a } else if a == b { a } else { b }
        }
    }
}

pub fn scalar_op_f(op: NumOp, a: Scalar, b: Scalar) -> Scalar {
    let (Scalar::F(x), Scalar::F(y)) = (a, b) else { panic!("non-float scalar in f64 table") };
    let (x, y) = (f64::from_bits(x), f64::from_bits(y));
    match op {
        NumOp::Add => norm_f(x + y),
        NumOp::Sub => norm_f(x - y),
        NumOp::Mul => norm_f(x * y),
        NumOp::Div => norm_f(x / y),
        NumOp::Min | NumOp::Max => {
            if x.is_nan() || y.is_nan() {
                return norm_f(f64::NAN);
            }
            if op == NumOp::Min { norm_f(if x <= y { x } else { y }) } else { norm_f(if x >= y { x } else { y }) }
        }
    }
}

pub fn scalar_op(kind: Kind, op: NumOp, a: Scalar, b: Scalar) -> Scalar {
    if kind == Kind::MtbddI { scalar_op_i(op, a, b) } else { scalar_op_f(op, a, b) }
}

pub fn num_bin(kind: Kind, op: NumOp, a: &NumTab, b: &NumTab) -> NumTab {
    assert_eq!(a.n, b.n);
    NumTab { n: a.n, v: a.v.iter().zip(&b.v).map(|(&x, &y)| scalar_op(kind, op, x, y)).collect() }
}

pub fn zero(kind: Kind) -> Scalar {
    norm(kind, Scalar::Int(0)).unwrap()
}
pub fn one(kind: Kind) -> Scalar {
    norm(kind, Scalar::Int(1)).unwrap()
}

impl NumTab {
    pub fn constant(kind: Kind, n: u32, s: Scalar) -> Option<NumTab> {
        let s = norm(kind, s)?;
        Some(NumTab { n, v: vec![s; 1 << n] })
    }
    pub fn var(kind: Kind, n: u32, v: u32) -> NumTab {
        let (z, o) = (zero(kind), one(kind));
        NumTab { n, v: (0..1u32 << n).map(|a| if a >> v & 1 == 1 { o } else { z }).collect() }
    }
    pub fn is_zero_one(&self) -> bool {
        self.v.iter().all(|s| {
            matches!(s, Scalar::Int(0) | Scalar::Int(1))
                || *s == Scalar::F(0f64.to_bits())
                || *s == Scalar::F(1f64.to_bits())
        })
    }
    fn truthy(s: Scalar) -> bool {
        matches!(s, Scalar::Int(1)) || s == Scalar::F(1f64.to_bits())
    }
    pub fn ite(&self, t: &NumTab, e: &NumTab) -> NumTab {
        NumTab {
            n: self.n,
            v: (0..self.v.len()).map(|i| if Self::truthy(self.v[i]) { t.v[i] } else { e.v[i] }).collect(),
        }
    }
    pub fn cofactor(&self, v: u32, val: bool) -> NumTab {
        NumTab {
            n: self.n,
            v: (0..self.v.len() as u32)
                .map(|a| self.v[(if val { a | (1 << v) } else { a & !(1 << v) }) as usize])
                .collect(),
        }
    }
    pub fn restrict(&self, pos: u32, neg: u32) -> NumTab {
        let mut r = self.clone();
        for v in 0..self.n {
            if pos >> v & 1 == 1 {
                r = r.cofactor(v, true)
            } else if neg >> v & 1 == 1 {
                r = r.cofactor(v, false)
            }
        }
        r
    }
    pub fn depends_on(&self, v: u32) -> bool {
        self.cofactor(v, false) != self.cofactor(v, true)
    }
    pub fn is_const(&self) -> bool {
        self.v.iter().all(|x| *x == self.v[0])
    }
    pub fn extend(&self, m: u32) -> NumTab {
        let mask = (1u32 << self.n) - 1;
        NumTab { n: m, v: (0..1u32 << m).map(|a| self.v[(a & mask) as usize]).collect() }
    }
    pub fn canon_size(&self, order: &[u32]) -> usize {
        let mut seen: HashMap<NumTab, ()> = HashMap::new();
        fn rec(t: &NumTab, order: &[u32], l: usize, seen: &mut HashMap<NumTab, ()>) {
            if seen.contains_key(t) {
                return;
            }
            seen.insert(t.clone(), ());
            if t.is_const() {
                return;
            }
            let mut l = l;
            while !t.depends_on(order[l]) {
                l += 1;
            }
            let v = order[l];
            rec(&t.cofactor(v, true), order, l + 1, seen);
            rec(&t.cofactor(v, false), order, l + 1, seen);
        }
        rec(self, order, 0, &mut seen);
        seen.len()
    }
    pub fn distinct_values(&self) -> Vec<Scalar> {
        let mut out: Vec<Scalar> = vec![];
        for s in &self.v {
            if !out.contains(s) {
                out.push(*s)
            }
        }
        out
    }
    pub fn digest_into(&self, f: &mut crate::rng::Fnv) {
        f.u64(self.n as u64);
        for s in &self.v {
            match s {
                Scalar::Int(i) => {
                    f.byte(1);
                    f.u64(*i as u64)
                }
                Scalar::F(b) => {
                    f.byte(2);
                    f.u64(*b)
                }
                Scalar::PosInf => f.byte(3),
                Scalar::NegInf => f.byte(4),
                Scalar::NaN => f.byte(5),
            }
        }
    }
    pub fn short(&self) -> String {
        let items: Vec<String> = self.v.iter().map(|s| scalar_str(*s)).collect();
        format!("{}:[{}]", self.n, items.join(","))
    }
}

pub fn scalar_str(s: Scalar) -> String {
    match s {
        Scalar::Int(i) => format!("{}", i),
        Scalar::F(b) => format!("{:?}", f64::from_bits(b)),
        Scalar::PosInf => "+inf".into(),
        Scalar::NegInf => "-inf".into(),
        Scalar::NaN => "NaN".into(),
    }
}

#[cfg(test)]
mod tests {
    use super::*;
    use Scalar::*;
    #[test]
    fn int_boundaries() {
        assert_eq!(scalar_op_i(NumOp::Add, Int(i64::MIN), Int(-1)), NegInf);
        assert_eq!(scalar_op_i(NumOp::Add, Int(i64::MAX), Int(1)), PosInf);
        assert_eq!(scalar_op_i(NumOp::Sub, Int(i64::MIN), Int(1)), NegInf);
        assert_eq!(scalar_op_i(NumOp::Sub, Int(0), Int(i64::MIN)), PosInf);
        assert_eq!(scalar_op_i(NumOp::Mul, Int(i64::MIN), Int(-1)), PosInf);
        assert_eq!(scalar_op_i(NumOp::Div, Int(i64::MIN), Int(-1)), PosInf);
        assert_eq!(scalar_op_i(NumOp::Div, Int(-7), Int(2)), Int(-3));
        assert_eq!(scalar_op_i(NumOp::Div, Int(0), Int(0)), NaN);
        assert_eq!(scalar_op_i(NumOp::Div, Int(-1), Int(0)), NegInf);
        assert_eq!(scalar_op_i(NumOp::Mul, Int(0), PosInf), NaN);
        assert_eq!(scalar_op_i(NumOp::Sub, PosInf, PosInf), NaN);
        assert_eq!(scalar_op_i(NumOp::Min, Int(3), NegInf), NegInf);
        assert_eq!(scalar_op_i(NumOp::Max, Int(3), NegInf), Int(3));
        assert_eq!(scalar_op_i(NumOp::Max, Int(3), NaN), NaN);
    }
}
