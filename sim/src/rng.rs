//! One integer decides everything: SplitMix64 streams keyed by (seed, run, stream).

#[derive(Clone, Debug)]
pub struct Rng(u64);

pub const STREAM_CONFIG: u64 = 1;
pub const STREAM_WORKLOAD: u64 = 2;
pub const STREAM_SCHEDULE: u64 = 3;
pub const STREAM_FAULTS: u64 = 4;
pub const STREAM_IO: u64 = 5;
pub const STREAM_AUX: u64 = 6;

#[inline]
fn mix(mut z: u64) -> u64 {
    z = (z ^ (z >> 30)).wrapping_mul(0xbf58476d1ce4e5b9);
    z = (z ^ (z >> 27)).wrapping_mul(0x94d049bb133111eb);
    z ^ (z >> 31)
}

impl Rng {
    pub fn new(seed: u64, run: u64, stream: u64) -> Self {
        let a = mix(seed.wrapping_add(0x9e3779b97f4a7c15));
        let b = mix(a ^ run.wrapping_mul(0xd1342543de82ef95).wrapping_add(0x2545f4914f6cdd1d));
        let c = mix(b ^ stream.wrapping_mul(0xda942042e4dd58b5).wrapping_add(0x632be59bd9b4e019));
        Rng(c)
    }
    pub fn from_raw(s: u64) -> Self {
        Rng(s)
    }
    #[inline]
    pub fn next(&mut self) -> u64 {
        self.0 = self.0.wrapping_add(0x9e3779b97f4a7c15);
        mix(self.0)
    }
    /// uniform in 0..n (n > 0)
    #[inline]
    pub fn below(&mut self, n: u64) -> u64 {
        debug_assert!(n > 0);
        // multiply-shift; bias is irrelevant here
        ((self.next() as u128 * n as u128) >> 64) as u64
    }
    #[inline]
    pub fn range(&mut self, lo: u64, hi_incl: u64) -> u64 {
        lo + self.below(hi_incl - lo + 1)
    }
    #[inline]
    pub fn chance(&mut self, num: u64, den: u64) -> bool {
        self.below(den) < num
    }
    #[inline]
    pub fn bool(&mut self) -> bool {
        self.next() & 1 == 1
    }
    pub fn pick<'a, T>(&mut self, xs: &'a [T]) -> &'a T {
        &xs[self.below(xs.len() as u64) as usize]
    }
    /// weighted choice; returns index
    pub fn weighted(&mut self, ws: &[u32]) -> usize {
        let total: u64 = ws.iter().map(|&w| w as u64).sum();
        debug_assert!(total > 0);
        let mut x = self.below(total);
        for (i, &w) in ws.iter().enumerate() {
            if x < w as u64 {
                return i;
            }
            x -= w as u64;
        }
        ws.len() - 1
    }
    pub fn shuffle<T>(&mut self, xs: &mut [T]) {
        for i in (1..xs.len()).rev() {
            let j = self.below(i as u64 + 1) as usize;
            xs.swap(i, j);
        }
    }
}

/// FNV-1a 64 for digests (stable across builds and processes)
#[derive(Clone, Copy)]
pub struct Fnv(pub u64);
impl Default for Fnv {
    fn default() -> Self {
        Fnv(0xcbf29ce484222325)
    }
}
impl Fnv {
    #[inline]
    pub fn byte(&mut self, b: u8) {
        self.0 ^= b as u64;
        self.0 = self.0.wrapping_mul(0x100000001b3);
    }
    pub fn bytes(&mut self, bs: &[u8]) {
        for &b in bs {
            self.byte(b)
        }
    }
    pub fn u64(&mut self, x: u64) {
        self.bytes(&x.to_le_bytes())
    }
    pub fn str(&mut self, s: &str) {
        self.bytes(s.as_bytes());
        self.byte(0xff);
    }
}
pub fn fnv_str(s: &str) -> u64 {
    let mut f = Fnv::default();
    f.str(s);
    f.0
}
