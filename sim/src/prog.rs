//! Register-machine programs: a history is a straight-line program over handle registers.
//! Instructions reading an empty register are no-ops in model and implementation alike,
//! so deleting instructions keeps a program valid (shrinking, replay).

use serde::{Deserialize, Serialize};

pub type Reg = u8;
pub const NREGS: usize = 24;
pub const NSUBST: usize = 3;
pub const NSATCACHE: usize = 3;

#[derive(Clone, Copy, Debug, PartialEq, Eq, Hash, Serialize, Deserialize)]
pub enum Kind {
    Bdd,
    Bcdd,
    Zbdd,
    MtbddI,
    MtbddF,
    Tdd,
}
impl Kind {
    pub fn name(self) -> &'static str {
        match self {
            Kind::Bdd => "bdd",
            Kind::Bcdd => "bcdd",
            Kind::Zbdd => "zbdd",
            Kind::MtbddI => "mtbdd-i64",
            Kind::MtbddF => "mtbdd-f64",
            Kind::Tdd => "tdd",
        }
    }
    pub fn parse(s: &str) -> Option<Kind> {
        Some(match s {
            "bdd" => Kind::Bdd,
            "bcdd" => Kind::Bcdd,
            "zbdd" => Kind::Zbdd,
            "mtbdd-i64" | "mtbdd" => Kind::MtbddI,
            "mtbdd-f64" => Kind::MtbddF,
            "tdd" => Kind::Tdd,
            _ => return None,
        })
    }
    pub fn is_boolean(self) -> bool {
        matches!(self, Kind::Bdd | Kind::Bcdd | Kind::Zbdd)
    }
    pub fn has_quant(self) -> bool {
        matches!(self, Kind::Bdd | Kind::Bcdd)
    }
    pub fn arity(self) -> usize {
        if self == Kind::Tdd { 3 } else { 2 }
    }
}

#[derive(Clone, Copy, Debug, PartialEq, Eq, Hash, Serialize, Deserialize)]
pub enum BinOp {
    And,
    Or,
    Nand,
    Nor,
    Xor,
    Equiv,
    Imp,
    ImpStrict,
}
pub const BIN_OPS: [BinOp; 8] = [
    BinOp::And,
    BinOp::Or,
    BinOp::Nand,
    BinOp::Nor,
    BinOp::Xor,
    BinOp::Equiv,
    BinOp::Imp,
    BinOp::ImpStrict,
];

#[derive(Clone, Copy, Debug, PartialEq, Eq, Hash, Serialize, Deserialize)]
pub enum Quant {
    Forall,
    Exists,
    Unique,
}
pub const QUANTS: [Quant; 3] = [Quant::Forall, Quant::Exists, Quant::Unique];

#[derive(Clone, Copy, Debug, PartialEq, Eq, Hash, Serialize, Deserialize)]
pub enum NumOp {
    Add,
    Sub,
    Mul,
    Div,
    Min,
    Max,
}
pub const NUM_OPS: [NumOp; 6] = [NumOp::Add, NumOp::Sub, NumOp::Mul, NumOp::Div, NumOp::Min, NumOp::Max];

#[derive(Clone, Copy, Debug, PartialEq, Eq, Hash, Serialize, Deserialize)]
pub enum ZOp {
    Union,
    Intsec,
    Diff,
}
#[derive(Clone, Copy, Debug, PartialEq, Eq, Hash, Serialize, Deserialize)]
pub enum ZUnOp {
    Subset0,
    Subset1,
    Change,
}

#[derive(Clone, Copy, Debug, PartialEq, Eq, Hash, Serialize, Deserialize)]
pub enum CountTy {
    U64,
    U128,
    F64,
    Nat,
}
pub const COUNT_TYS: [CountTy; 4] = [CountTy::U64, CountTy::U128, CountTy::F64, CountTy::Nat];

/// Scalar for MTBDD terminals, serialisable exactly.
#[derive(Clone, Copy, Debug, PartialEq, Eq, Hash, Serialize, Deserialize)]
pub enum Scalar {
    Int(i64),
    /// IEEE bits (only for the f64 kind)
    F(u64),
    PosInf,
    NegInf,
    NaN,
}

/// Behaviour of the caller-supplied name iterator (fault kind F9)
#[derive(Clone, Copy, Debug, PartialEq, Eq, Hash, Serialize, Deserialize)]
pub enum IterFault {
    None,
    /// iterator panics when asked for item k
    PanicAt(u8),
}

#[derive(Clone, Debug, PartialEq, Eq, Hash, Serialize, Deserialize)]
pub struct DddmpOpts {
    pub ascii: bool,
    pub v3: bool,
    pub strict: bool,
    pub roots: Vec<Reg>,
    pub root_names: Option<Vec<String>>,
    pub diagram_name: String,
}

#[derive(Clone, Debug, PartialEq, Eq, Hash, Serialize, Deserialize)]
pub enum Instr {
    // ---- every kind ----
    Clone { d: Reg, a: Reg },
    Drop { a: Reg },
    Gc,
    AddVars { k: u8 },
    /// `manager.reorder(|m| m.add_vars(k))`: variable addition inside a reordering closure
    AddVarsInReorder { k: u8 },
    AddNamed { names: Vec<String>, fault: IterFault },
    AddNamedMap { names: Vec<String> },
    SetName { v: u8, name: String },
    Order { order: Vec<u32>, seq: bool },
    NodeCount { a: Reg },
    /// a diagram far beyond the reach of the truth-table model, in a manager of its own:
    /// OR_i (x_i AND x_{k+i}) under the identity order has 2^(k+1) - 2 inner nodes; node_count()
    /// against that closed form and against an independent traversal
    BigCount { k: u8 },
    /// C12: `count` seeded operations on `Natural` numbers against the reference bignum
    NatOps { seed: u64, count: u8 },
    EvalAll { a: Reg },
    // ---- boolean kinds ----
    Const { d: Reg, val: bool },
    /// build the function with truth table `bits` (n <= 6) by Shannon expansion (ite)
    Table { d: Reg, bits: u64 },
    Var { d: Reg, v: u8 },
    NotVar { d: Reg, v: u8 },
    Not { d: Reg, a: Reg },
    NotOwned { d: Reg, a: Reg },
    Bin { d: Reg, op: BinOp, a: Reg, b: Reg },
    Ite { d: Reg, a: Reg, b: Reg, c: Reg },
    /// which: 0 = (true,false) pair into d and d2, 1 = true only, 2 = false only
    Cof { d: Reg, d2: Reg, a: Reg, which: u8 },
    SatValid { a: Reg },
    Restrict { d: Reg, a: Reg, pos: u32, neg: u32 },
    Quantify { d: Reg, q: Quant, a: Reg, vars: u32 },
    ApplyQuant { d: Reg, q: Quant, op: BinOp, a: Reg, b: Reg, vars: u32 },
    SubstNew { s: u8, pairs: Vec<(u8, Reg)> },
    SubstDrop { s: u8 },
    Subst { d: Reg, a: Reg, s: u8 },
    PickCube { a: Reg, choices: u32 },
    PickCubeDd { d: Reg, a: Reg, choices: u32 },
    PickCubeDdSet { d: Reg, a: Reg, pos: u32, neg: u32 },
    PickUniform { a: Reg, seed: u64, draws: u16, cache: u8 },
    SatCount { a: Reg, ty: CountTy, cache: u8, extra_vars: u16, cache_all: bool },
    /// export roots through the simulated disk and import them again (same manager) into
    /// registers d.. ; io faults come from the run's io script
    Dddmp { d: Reg, opts: DddmpOpts },
    // ---- ZBDD family view ----
    ZConst { d: Reg, base: bool },
    ZSingleton { d: Reg, v: u8 },
    ZBin { d: Reg, op: ZOp, a: Reg, b: Reg },
    ZUn { d: Reg, op: ZUnOp, a: Reg, v: u8 },
    ZMakeNode { d: Reg, v: u8, hi: Reg, lo: Reg },
    // ---- MTBDD ----
    NConst { d: Reg, val: Scalar },
    NVar { d: Reg, v: u8 },
    NBin { d: Reg, op: NumOp, a: Reg, b: Reg },
    NIte { d: Reg, c: Reg, t: Reg, e: Reg },
    NRestrict { d: Reg, a: Reg, pos: u32, neg: u32 },
    // ---- TDD ----
    /// 0 = false, 1 = true, 2 = unknown
    TConst { d: Reg, val: u8 },
    TVar { d: Reg, v: u8 },
    TNot { d: Reg, a: Reg },
    /// edge-level API: `TVLFunction::not_edge_owned` on a cloned edge
    TNotEdgeOwned { d: Reg, a: Reg },
    TBin { d: Reg, op: BinOp, a: Reg, b: Reg },
    TIte { d: Reg, a: Reg, b: Reg, c: Reg },
    /// which: 0 = all three (t,u,f) into d,d2,d3; 1 = t, 2 = u, 3 = f
    TCof { d: Reg, d2: Reg, d3: Reg, a: Reg, which: u8 },
}

impl Instr {
    /// registers read by this instruction
    pub fn operands(&self) -> Vec<Reg> {
        use Instr::*;
        match self {
            Clone { a, .. } | Drop { a } | NodeCount { a } | EvalAll { a } | Not { a, .. } | NotOwned { a, .. }
            | Cof { a, .. } | SatValid { a } | Restrict { a, .. } | Quantify { a, .. } | Subst { a, .. }
            | PickCube { a, .. } | PickCubeDd { a, .. } | PickCubeDdSet { a, .. } | PickUniform { a, .. }
            | SatCount { a, .. } | ZUn { a, .. } | NRestrict { a, .. } | TNot { a, .. } | TNotEdgeOwned { a, .. } | TCof { a, .. } => vec![*a],
            Bin { a, b, .. } | ApplyQuant { a, b, .. } | ZBin { a, b, .. } | NBin { a, b, .. } | TBin { a, b, .. } => vec![*a, *b],
            Ite { a, b, c, .. } | TIte { a, b, c, .. } => vec![*a, *b, *c],
            NIte { c, t, e, .. } => vec![*c, *t, *e],
            ZMakeNode { hi, lo, .. } => vec![*hi, *lo],
            SubstNew { pairs, .. } => pairs.iter().map(|p| p.1).collect(),
            Dddmp { opts, .. } => opts.roots.clone(),
            _ => vec![],
        }
    }
    /// substitution slot read by this instruction
    pub fn subst_slot(&self) -> Option<u8> {
        match self {
            Instr::Subst { s, .. } => Some(*s),
            _ => None,
        }
    }
    /// does this instruction (potentially) create nodes?
    pub fn creates_nodes(&self) -> bool {
        use Instr::*;
        !matches!(
            self,
            Clone { .. }
                | Drop { .. }
                | Gc
                | SetName { .. }
                | NodeCount { .. }
                | EvalAll { .. }
                | Const { .. }
                | SatValid { .. }
                | SubstDrop { .. }
                | PickCube { .. }
                | PickUniform { .. }
                | SatCount { .. }
                | BigCount { .. }
                | NatOps { .. }
                | ZConst { .. }
                | TConst { .. }
        )
    }
}

#[derive(Clone, Debug, PartialEq, Eq, Serialize, Deserialize)]
pub struct Config {
    pub kind: Kind,
    /// initial number of variables
    pub vars: u32,
    /// inner node capacity (index backend; ignored by the pointer backend)
    pub capacity: u32,
    /// terminal capacity (MTBDD)
    pub term_capacity: u32,
    pub cache: u32,
    pub threads: u32,
    /// None = automatic
    pub split_depth: Option<u32>,
    /// run the capacity probe (A10) at the end
    pub probe: bool,
    /// tight capacity expected: OutOfMemory results are legal
    pub oom_ok: bool,
    /// do not steer clear of reordering / adding variables when the manager is nearly
    /// full (those operations abort the process on allocation failure: known finding)
    #[serde(default)]
    pub unguarded: bool,
    /// DDDMP: inject faults on the writer/reader seams (F8)
    #[serde(default)]
    pub io_faults: bool,
    /// DDDMP: stored-byte faults (every truncation point, seeded mutations)
    #[serde(default)]
    pub io_corrupt: bool,
    #[serde(default)]
    pub io_seed: u64,
}

#[derive(Clone, Debug, PartialEq, Eq, Serialize, Deserialize)]
pub struct Program {
    pub config: Config,
    pub instrs: Vec<Instr>,
}

impl Program {
    pub fn digest(&self) -> u64 {
        crate::rng::fnv_str(&serde_json::to_string(self).unwrap())
    }
    pub fn nontrivial(&self) -> bool {
        self.instrs.iter().any(|i| i.creates_nodes())
    }
}
