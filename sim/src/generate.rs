//! Program generator. Draws the next instruction from the *model state* only (never
//! from the implementation), swarm-style: sizes, mixes and knobs are redrawn per run.

use crate::model::Model;
use crate::prog::*;
use crate::rng::{Rng, STREAM_CONFIG, STREAM_WORKLOAD};

/// instruction classes with independent weights
#[derive(Clone, Copy, Debug, PartialEq, Eq)]
#[repr(usize)]
pub enum Class {
    Leaf,
    Unary,
    Binary,
    Ite,
    Cof,
    Quant,
    Subst,
    Pick,
    SatCount,
    Observe,
    CloneH,
    DropH,
    Gc,
    AddVars,
    Names,
    Order,
    Dddmp,
    ZOps,
    Rederive,
}
pub const NCLASS: usize = 19;

#[derive(Clone, Debug)]
pub struct GenOpts {
    pub kinds: Vec<Kind>,
    /// multiplicative emphasis per class
    pub emphasis: [u32; NCLASS],
    pub min_len: u32,
    pub max_len: u32,
    pub max_vars: u32,
    /// percentage of runs with a tight capacity (OutOfMemory expected)
    pub tight_pct: u32,
    pub allow_order: bool,
    pub allow_names: bool,
    pub allow_dddmp: bool,
    pub threads: Vec<u32>,
    /// ZBDD reordering is a known finding (C08); off in the general workloads
    pub zbdd_order: bool,
    /// 0 = fault-free streams, 1 = writer/reader faults, 2 = stored-byte faults
    pub io_mode: u32,
    /// never draw a small capacity (C20: the pointer backend has no capacity)
    pub ample_only: bool,
    /// C12: mix in differential runs of the natural-number type
    pub nat_ops: bool,
    /// C03/C20: now and then a diagram of tens of thousands of nodes (node_count agreement)
    pub big_count: bool,
}

impl GenOpts {
    pub fn base(kinds: &[Kind]) -> GenOpts {
        GenOpts {
            kinds: kinds.to_vec(),
            emphasis: [4; NCLASS],
            min_len: 5,
            max_len: 50,
            max_vars: 6,
            tight_pct: 0,
            allow_order: true,
            allow_names: true,
            allow_dddmp: false,
            threads: vec![1],
            zbdd_order: true,
            io_mode: 0,
            ample_only: false,
            nat_ops: false,
            big_count: false,
        }
    }
    pub fn emph(mut self, c: Class, w: u32) -> Self {
        self.emphasis[c as usize] = w;
        self
    }
}

fn base_weight(c: Class, kind: Kind) -> u32 {
    use Class::*;
    let b = kind.is_boolean();
    match c {
        Leaf => 10,
        Unary => 6,
        Binary => 16,
        Ite => 6,
        Cof => 4,
        Quant => if kind.has_quant() { 8 } else if kind == Kind::Zbdd { 4 } else { 0 },
        Subst => if kind.has_quant() { 5 } else { 0 },
        Pick => if b { 4 } else { 0 },
        SatCount => if b { 4 } else { 0 },
        Observe => 5,
        CloneH => 3,
        DropH => 6,
        Gc => 4,
        AddVars => 1,
        Names => 2,
        Order => 3,
        Dddmp => 2,
        ZOps => if kind == Kind::Zbdd { 14 } else { 0 },
        Rederive => 4,
    }
}

pub struct Gen<'a> {
    pub rng: Rng,
    pub model: Model,
    pub opts: &'a GenOpts,
    weights: [u32; NCLASS],
    pub out: Vec<Instr>,
}

const NAME_ALPHABET: [&str; 6] = ["", "a", "b", "c", "d", "x y"];

impl<'a> Gen<'a> {
    fn live(&self) -> Vec<Reg> {
        self.model.live_regs()
    }
    fn pick_live(&mut self) -> Option<Reg> {
        let l = self.live();
        if l.is_empty() { None } else { Some(*self.rng.pick(&l)) }
    }
    fn dest(&mut self) -> Reg {
        // prefer an empty register, sometimes overwrite
        let empty: Vec<Reg> = (0..NREGS as u8).filter(|&r| self.model.regs[r as usize].is_none()).collect();
        if !empty.is_empty() && self.rng.chance(4, 5) {
            *self.rng.pick(&empty)
        } else {
            self.rng.below(NREGS as u64) as Reg
        }
    }
    fn var(&mut self) -> u8 {
        self.rng.below(self.model.n.max(1) as u64) as u8
    }
    fn mask(&mut self) -> u32 {
        let n = self.model.n;
        let full = (1u32 << n) - 1;
        match self.rng.below(4) {
            0 => 1 << self.rng.below(n as u64),
            1 => full,
            _ => (self.rng.next() as u32) & full,
        }
    }
    fn push(&mut self, i: Instr) {
        self.model.apply(&i);
        self.out.push(i);
    }
    fn name(&mut self) -> String {
        if self.rng.chance(1, 8) {
            let cs = ['é', 'ß', '∀', 'z', ' ', '\t', '0', '_', 'Ω'];
            let len = self.rng.range(1, 4);
            (0..len).map(|_| *self.rng.pick(&cs)).collect()
        } else {
            self.rng.pick(&NAME_ALPHABET).to_string()
        }
    }

    fn leaf(&mut self) {
        let d = self.dest();
        let k = self.model.kind;
        let n = self.model.n;
        let i = match k {
            Kind::Bdd | Kind::Bcdd | Kind::Zbdd => {
                if n >= 1 && n <= 6 && self.rng.chance(1, 3) {
                    let bits = match self.rng.below(4) {
                        0 => self.rng.next() & self.rng.next(),
                        1 => self.rng.next() | self.rng.next(),
                        _ => self.rng.next(),
                    };
                    let mask = if n == 6 { !0u64 } else { (1u64 << (1u32 << n)) - 1 };
                    Instr::Table { d, bits: bits & mask }
                } else if n == 0 || self.rng.chance(1, 6) {
                    if k == Kind::Zbdd && self.rng.bool() {
                        Instr::ZConst { d, base: self.rng.bool() }
                    } else {
                        Instr::Const { d, val: self.rng.bool() }
                    }
                } else if k == Kind::Zbdd && self.rng.chance(1, 3) {
                    Instr::ZSingleton { d, v: self.var() }
                } else if self.rng.chance(1, 4) {
                    Instr::NotVar { d, v: self.var() }
                } else {
                    Instr::Var { d, v: self.var() }
                }
            }
            Kind::MtbddI | Kind::MtbddF => {
                if n == 0 || self.rng.chance(1, 2) {
                    Instr::NConst { d, val: self.scalar() }
                } else {
                    Instr::NVar { d, v: self.var() }
                }
            }
            Kind::Tdd => {
                if n == 0 || self.rng.chance(1, 3) {
                    Instr::TConst { d, val: self.rng.below(3) as u8 }
                } else {
                    Instr::TVar { d, v: self.var() }
                }
            }
        };
        self.push(i);
    }
    pub fn scalar(&mut self) -> Scalar {
        const B: [i64; 8] = [0, 1, -1, 2, 3, -7, i64::MIN, i64::MAX];
        match self.rng.below(16) {
            0 => Scalar::PosInf,
            1 => Scalar::NegInf,
            2 => Scalar::NaN,
            3..=10 => Scalar::Int(*self.rng.pick(&B)),
            11 | 12 => Scalar::Int(self.rng.range(0, 20) as i64 - 10),
            13 if self.model.kind == Kind::MtbddF => {
                const F: [f64; 6] = [0.5, -0.0, 1e300, -1e300, 1e-300, 2.5];
                Scalar::F(self.rng.pick(&F).to_bits())
            }
            _ => Scalar::Int(self.rng.range(0, 4) as i64),
        }
    }
    fn unary(&mut self) {
        let Some(a) = self.pick_live() else { return self.leaf() };
        let d = self.dest();
        let i = match self.model.kind {
            Kind::Tdd => {
                if self.rng.chance(1, 4) {
                    Instr::TNotEdgeOwned { d, a }
                } else {
                    Instr::TNot { d, a }
                }
            }
            Kind::MtbddI | Kind::MtbddF => {
                let n = self.model.n;
                let m = (1u32 << n) - 1;
                let pos = self.rng.next() as u32 & m;
                let neg = self.rng.next() as u32 & m & !pos;
                Instr::NRestrict { d, a, pos, neg }
            }
            _ => {
                if self.rng.chance(1, 5) {
                    Instr::NotOwned { d, a }
                } else {
                    Instr::Not { d, a }
                }
            }
        };
        self.push(i);
    }
    fn binary(&mut self) {
        let (Some(a), Some(b)) = (self.pick_live(), self.pick_live()) else { return self.leaf() };
        let d = self.dest();
        let i = match self.model.kind {
            Kind::Tdd => Instr::TBin { d, op: *self.rng.pick(&BIN_OPS), a, b },
            Kind::MtbddI | Kind::MtbddF => Instr::NBin { d, op: *self.rng.pick(&NUM_OPS), a, b },
            _ => Instr::Bin { d, op: *self.rng.pick(&BIN_OPS), a, b },
        };
        self.push(i);
        // histories issuing a different operator on the same operands (cache key)
        if self.rng.chance(1, 4) {
            let d2 = self.dest();
            let j = match self.model.kind {
                Kind::Tdd => Instr::TBin { d: d2, op: *self.rng.pick(&BIN_OPS), a, b },
                Kind::MtbddI | Kind::MtbddF => Instr::NBin { d: d2, op: *self.rng.pick(&NUM_OPS), a, b },
                _ => Instr::Bin { d: d2, op: *self.rng.pick(&BIN_OPS), a, b },
            };
            self.push(j);
        }
    }
    fn ite(&mut self) {
        let (Some(a), Some(b), Some(c)) = (self.pick_live(), self.pick_live(), self.pick_live()) else { return self.leaf() };
        let d = self.dest();
        let i = match self.model.kind {
            Kind::Tdd => Instr::TIte { d, a, b, c },
            Kind::MtbddI | Kind::MtbddF => {
                // condition must be 0-1 valued: look for one
                let zo: Vec<Reg> =
                    self.live().into_iter().filter(|r| self.model.reg(*r).is_some_and(|x| x.n().is_zero_one())).collect();
                if zo.is_empty() {
                    return self.leaf();
                }
                let c0 = *self.rng.pick(&zo);
                Instr::NIte { d, c: c0, t: b, e: c }
            }
            _ => Instr::Ite { d, a, b, c },
        };
        self.push(i);
    }
    fn cof(&mut self) {
        let Some(a) = self.pick_live() else { return self.leaf() };
        let (d, d2, d3) = (self.dest(), self.dest(), self.dest());
        if d == d2 || d == d3 || d2 == d3 {
            return;
        }
        let i = match self.model.kind {
            Kind::Tdd => Instr::TCof { d, d2, d3, a, which: self.rng.below(4) as u8 },
            Kind::MtbddI | Kind::MtbddF => return self.unary(),
            _ => Instr::Cof { d, d2, a, which: self.rng.below(3) as u8 },
        };
        self.push(i);
    }
    fn quant(&mut self) {
        if self.model.kind == Kind::Zbdd && self.model.n > 0 && self.rng.bool() {
            // ZBDDs implement BooleanFunction::restrict, but no quantification
            // the pattern behind F25: restrict, add variables, restrict the same function with the
            // new variables false - as ZBDD nodes the second cube is the first one
            if self.model.n < self.opts.max_vars && self.weights[Class::AddVars as usize] > 0 && self.rng.chance(1, 5) {
                if let Some(a) = self.pick_live() {
                    let n0 = self.model.n;
                    let m0 = (1u32 << n0) - 1;
                    let pos = self.rng.next() as u32 & m0;
                    let neg = self.rng.next() as u32 & m0 & !pos;
                    let d = self.dest();
                    self.push(Instr::Restrict { d, a, pos, neg });
                    let k = self.rng.range(1, (self.opts.max_vars - n0).min(2) as u64) as u8;
                    if self.opts.allow_names && self.rng.bool() {
                        let names: Vec<String> = (0..k).map(|_| self.name()).collect();
                        self.push(Instr::AddNamed { names, fault: IterFault::None });
                    } else {
                        self.push(Instr::AddVars { k });
                    }
                    if self.model.n > n0 && self.model.reg(a).is_some() {
                        let newbits = ((1u32 << self.model.n) - 1) & !m0;
                        let d2 = self.dest();
                        self.push(Instr::Restrict { d: d2, a, pos, neg: neg | newbits });
                    }
                    return;
                }
            }
            let m = (1u32 << self.model.n) - 1;
            // an earlier restriction again, now with the upper variables (those added since,
            // perhaps) restricted to false: as ZBDDs the two cubes can be the very same node
            if self.rng.chance(1, 3) {
                let prev = self.out.iter().rev().find_map(|i| match i {
                    Instr::Restrict { a, pos, neg, .. } if self.model.reg(*a).is_some() => Some((*a, *pos, *neg)),
                    _ => None,
                });
                if let Some((a, pos, neg)) = prev {
                    let k = self.rng.range(1, self.model.n as u64) as u32;
                    let upper = m & !((1u32 << k) - 1);
                    let d = self.dest();
                    return self.push(Instr::Restrict { d, a, pos: pos & !upper & m, neg: (neg | upper) & m });
                }
            }
            let Some(a) = self.pick_live() else { return self.leaf() };
            let d = self.dest();
            let pos = self.rng.next() as u32 & m;
            let neg = self.rng.next() as u32 & m & !pos;
            return self.push(Instr::Restrict { d, a, pos, neg });
        }
        if !self.model.kind.has_quant() || self.model.n == 0 {
            return self.binary();
        }
        // the same quantification again with a sub-set (or super-set) of the variables: results
        // memoised for one variable set must not be served for another
        if self.rng.chance(1, 3) {
            let prev = self.out.iter().rev().take(6).find_map(|i| match i {
                Instr::ApplyQuant { q, op, a, b, vars, .. } if self.model.reg(*a).is_some() && self.model.reg(*b).is_some() => {
                    Some((true, *q, *op, *a, *b, *vars))
                }
                Instr::Quantify { q, a, vars, .. } if self.model.reg(*a).is_some() => Some((false, *q, BinOp::And, *a, *a, *vars)),
                _ => None,
            });
            if let Some((is_apply, q, op, a, b, vars)) = prev {
                let m = (1u32 << self.model.n) - 1;
                let v2 = match self.rng.below(4) {
                    0 => vars & (vars.wrapping_sub(1)),                 // lowest variable removed
                    1 => vars & !(1u32 << (31 - (vars | 1).leading_zeros())), // highest removed
                    2 => vars & self.rng.next() as u32,
                    _ => (vars | self.rng.next() as u32) & m,
                } & m;
                let d = self.dest();
                let i = if is_apply { Instr::ApplyQuant { d, q, op, a, b, vars: v2 } } else { Instr::Quantify { d, q, a, vars: v2 } };
                return self.push(i);
            }
        }
        let Some(a) = self.pick_live() else { return self.leaf() };
        let d = self.dest();
        let n = self.model.n;
        let m = (1u32 << n) - 1;
        let i = match self.rng.below(3) {
            0 => {
                let pos = self.rng.next() as u32 & m;
                let neg = self.rng.next() as u32 & m & !pos;
                Instr::Restrict { d, a, pos, neg }
            }
            1 => Instr::Quantify { d, q: *self.rng.pick(&QUANTS), a, vars: self.mask() },
            _ => {
                let b = self.pick_live().unwrap();
                Instr::ApplyQuant { d, q: *self.rng.pick(&QUANTS), op: *self.rng.pick(&BIN_OPS), a, b, vars: self.mask() }
            }
        };
        self.push(i);
    }
    fn subst(&mut self) {
        if !self.model.kind.has_quant() || self.model.n == 0 {
            return self.binary();
        }
        let live = self.live();
        if live.is_empty() {
            return self.leaf();
        }
        let have: Vec<u8> = (0..NSUBST as u8).filter(|s| self.model.substs[*s as usize].is_some()).collect();
        if have.is_empty() || self.rng.chance(1, 3) {
            let s = self.rng.below(NSUBST as u64) as u8;
            let n = self.model.n;
            let mut vars: Vec<u8> = (0..n as u8).collect();
            self.rng.shuffle(&mut vars);
            // now and then the empty substitution (identity)
            let k = if self.rng.chance(1, 10) { 0 } else { self.rng.range(1, n.min(3) as u64) as usize };
            let pairs: Vec<(u8, Reg)> = vars[..k].iter().map(|&v| (v, *self.rng.pick(&live))).collect();
            self.push(Instr::SubstNew { s, pairs });
        } else if self.rng.chance(1, 10) {
            let s = *self.rng.pick(&have);
            self.push(Instr::SubstDrop { s });
        }
        let have: Vec<u8> = (0..NSUBST as u8).filter(|s| self.model.substs[*s as usize].is_some()).collect();
        if let (false, Some(a)) = (have.is_empty(), self.pick_live()) {
            let s = *self.rng.pick(&have);
            let d = self.dest();
            self.push(Instr::Subst { d, a, s });
            // one substitution object reused / two alternated
            if self.rng.chance(1, 3) {
                if let Some(a2) = self.pick_live() {
                    let s2 = *self.rng.pick(&have);
                    let d2 = self.dest();
                    self.push(Instr::Subst { d: d2, a: a2, s: s2 });
                }
            }
        }
    }
    fn pick(&mut self) {
        if !self.model.kind.is_boolean() {
            return self.binary();
        }
        let Some(a) = self.pick_live() else { return self.leaf() };
        let n = self.model.n;
        let m = if n == 0 { 0 } else { (1u32 << n) - 1 };
        let i = match self.rng.below(8) {
            0 | 1 => Instr::PickCube { a, choices: self.rng.next() as u32 },
            2 | 3 => Instr::PickCubeDd { d: self.dest(), a, choices: self.rng.next() as u32 },
            4..=6 => {
                let pos = self.rng.next() as u32 & m;
                let neg = self.rng.next() as u32 & m & !pos;
                Instr::PickCubeDdSet { d: self.dest(), a, pos, neg }
            }
            _ => {
                if n > 4 {
                    Instr::PickCube { a, choices: self.rng.next() as u32 }
                } else {
                    Instr::PickUniform { a, seed: self.rng.next(), draws: 1500, cache: self.rng.below(NSATCACHE as u64) as u8 }
                }
            }
        };
        self.push(i);
    }
    fn satcount(&mut self) {
        if !self.model.kind.is_boolean() {
            return self.observe();
        }
        if self.opts.nat_ops && self.rng.chance(1, 4) {
            let i = Instr::NatOps { seed: self.rng.next(), count: self.rng.range(4, 24) as u8 };
            return self.push(i);
        }
        let Some(a) = self.pick_live() else { return self.leaf() };
        let extra = *self.rng.pick(&[0u16, 0, 0, 1, 70, 1090]);
        let i = Instr::SatCount {
            a,
            ty: *self.rng.pick(&COUNT_TYS),
            cache: self.rng.below(NSATCACHE as u64) as u8,
            extra_vars: extra,
            cache_all: self.rng.bool(),
        };
        self.push(i);
    }
    fn observe(&mut self) {
        if self.opts.big_count && matches!(self.model.kind, Kind::Bdd | Kind::Bcdd) && self.rng.chance(1, 40) {
            let k = *self.rng.pick(&[6u8, 10, 13, 14]);
            return self.push(Instr::BigCount { k });
        }
        let Some(a) = self.pick_live() else { return self.leaf() };
        let i = match self.rng.below(3) {
            0 => Instr::NodeCount { a },
            1 if self.model.kind.is_boolean() => Instr::SatValid { a },
            _ => Instr::EvalAll { a },
        };
        self.push(i);
    }
    fn names(&mut self) {
        if !self.opts.allow_names {
            return self.leaf();
        }
        let n = self.model.n;
        let room = self.opts.max_vars.saturating_sub(n);
        let i = match self.rng.below(4) {
            0 | 1 if n > 0 => Instr::SetName { v: self.var(), name: self.name() },
            2 if room > 0 => {
                let k = self.rng.range(1, room.min(3) as u64);
                let names: Vec<String> = (0..k).map(|_| self.name()).collect();
                let fault = if self.rng.chance(1, 5) { IterFault::PanicAt(self.rng.below(k) as u8) } else { IterFault::None };
                Instr::AddNamed { names, fault }
            }
            3 if room > 0 => {
                let k = self.rng.range(1, room.min(3) as u64);
                let names: Vec<String> = (0..k).map(|_| self.name()).collect();
                Instr::AddNamedMap { names }
            }
            _ => return self.leaf(),
        };
        self.push(i);
    }
    fn order(&mut self) {
        if !self.opts.allow_order || self.model.n < 2 || (self.model.kind == Kind::Zbdd && !self.opts.zbdd_order) {
            return self.leaf();
        }
        let n = self.model.n;
        let mut vars: Vec<u32> = (0..n).collect();
        self.rng.shuffle(&mut vars);
        let k = if self.rng.chance(1, 2) { n as usize } else { self.rng.range(2, n as u64) as usize };
        vars.truncate(k);
        let seq = self.rng.bool();
        self.push(Instr::Order { order: vars, seq });
    }
    fn zops(&mut self) {
        if self.model.kind != Kind::Zbdd {
            return self.binary();
        }
        let Some(a) = self.pick_live() else { return self.leaf() };
        let d = self.dest();
        let i = match self.rng.below(7) {
            0..=2 => {
                let b = self.pick_live().unwrap();
                Instr::ZBin { d, op: *self.rng.pick(&[ZOp::Union, ZOp::Intsec, ZOp::Diff]), a, b }
            }
            3..=5 if self.model.n > 0 => {
                Instr::ZUn { d, op: *self.rng.pick(&[ZUnOp::Subset0, ZUnOp::Subset1, ZUnOp::Change]), a, v: self.var() }
            }
            _ if self.model.n > 0 => {
                let lo = self.pick_live().unwrap();
                // find a variable strictly above both (the model rejects others)
                let mut cands: Vec<u8> = vec![];
                for v in 0..self.model.n as u8 {
                    if self.model.eval(&Instr::ZMakeNode { d, v, hi: a, lo }).is_some() {
                        cands.push(v);
                    }
                }
                if cands.is_empty() {
                    return;
                }
                Instr::ZMakeNode { d, v: *self.rng.pick(&cands), hi: a, lo }
            }
            _ => return,
        };
        self.push(i);
    }
    /// derive an existing function by a second route
    fn rederive(&mut self) {
        if !self.model.kind.is_boolean() {
            return self.binary();
        }
        let (Some(a), Some(b)) = (self.pick_live(), self.pick_live()) else { return self.leaf() };
        let (t1, t2, t3, t4) = (self.dest(), self.dest(), self.dest(), self.dest());
        let mut ds = vec![t1, t2, t3, t4, a, b];
        ds.sort();
        ds.dedup();
        if ds.len() != 6 {
            return;
        }
        match self.rng.below(4) {
            0 => {
                // De Morgan: and a b == not (or (not a) (not b))
                self.push(Instr::Bin { d: t1, op: BinOp::And, a, b });
                self.push(Instr::Not { d: t2, a });
                self.push(Instr::Not { d: t3, a: b });
                self.push(Instr::Bin { d: t4, op: BinOp::Nor, a: t2, b: t3 });
            }
            1 => {
                // ite a b c == (a and b) or (not a and c) with c := a xor b
                self.push(Instr::Bin { d: t1, op: BinOp::Xor, a, b });
                self.push(Instr::Ite { d: t2, a, b, c: t1 });
                self.push(Instr::Bin { d: t3, op: BinOp::And, a, b });
                self.push(Instr::Bin { d: t4, op: BinOp::ImpStrict, a, b: t1 });
                self.push(Instr::Bin { d: t4, op: BinOp::Or, a: t3, b: t4 });
            }
            2 => {
                // xor twice
                self.push(Instr::Bin { d: t1, op: BinOp::Xor, a, b });
                self.push(Instr::Bin { d: t2, op: BinOp::Xor, a: t1, b });
            }
            _ => {
                // drop, collect, derive again (node ids get recycled)
                self.push(Instr::Bin { d: t1, op: BinOp::Equiv, a, b });
                self.push(Instr::Drop { a: t1 });
                self.push(Instr::Gc);
                self.push(Instr::Bin { d: t2, op: BinOp::Imp, a, b });
                self.push(Instr::Bin { d: t3, op: BinOp::Equiv, a, b });
            }
        }
    }

    pub fn step(&mut self) {
        let c = self.rng.weighted(&self.weights);
        match c {
            x if x == Class::Leaf as usize => self.leaf(),
            x if x == Class::Unary as usize => self.unary(),
            x if x == Class::Binary as usize => self.binary(),
            x if x == Class::Ite as usize => self.ite(),
            x if x == Class::Cof as usize => self.cof(),
            x if x == Class::Quant as usize => self.quant(),
            x if x == Class::Subst as usize => self.subst(),
            x if x == Class::Pick as usize => self.pick(),
            x if x == Class::SatCount as usize => self.satcount(),
            x if x == Class::Observe as usize => self.observe(),
            x if x == Class::CloneH as usize => {
                if let Some(a) = self.pick_live() {
                    let d = self.dest();
                    self.push(Instr::Clone { d, a })
                }
            }
            x if x == Class::DropH as usize => {
                if let Some(a) = self.pick_live() {
                    self.push(Instr::Drop { a })
                }
            }
            x if x == Class::Gc as usize => self.push(Instr::Gc),
            x if x == Class::AddVars as usize => {
                if self.model.n < self.opts.max_vars {
                    let k = self.rng.range(1, (self.opts.max_vars - self.model.n).min(2) as u64) as u8;
                    let i = if self.rng.chance(1, 6) { Instr::AddVarsInReorder { k } } else { Instr::AddVars { k } };
                    self.push(i)
                }
            }
            x if x == Class::Names as usize => self.names(),
            x if x == Class::Order as usize => self.order(),
            x if x == Class::Dddmp as usize => self.dddmp(),
            x if x == Class::ZOps as usize => self.zops(),
            _ => self.rederive(),
        }
    }
    fn dddmp(&mut self) {
        if !self.opts.allow_dddmp || self.model.kind == Kind::Tdd {
            return self.observe();
        }
        let live = self.live();
        if live.is_empty() {
            return self.leaf();
        }
        let k = self.rng.range(1, 3.min(live.len()) as u64) as usize;
        let roots: Vec<Reg> = (0..k).map(|_| *self.rng.pick(&live)).collect();
        let d = self.rng.below((NREGS - 3) as u64) as Reg;
        let root_names = if self.rng.bool() { Some((0..k).map(|_| self.name()).collect()) } else { None };
        let opts = DddmpOpts {
            ascii: self.rng.bool(),
            v3: self.rng.bool(),
            strict: self.rng.chance(1, 4),
            roots,
            root_names,
            diagram_name: self.name(),
        };
        self.push(Instr::Dddmp { d, opts });
    }
}

pub fn gen_config(rng: &mut Rng, opts: &GenOpts) -> Config {
    let kind = *rng.pick(&opts.kinds);
    let maxv = match kind {
        Kind::Tdd => opts.max_vars.min(3),
        Kind::MtbddI | Kind::MtbddF => opts.max_vars.min(4),
        _ => opts.max_vars,
    };
    let vars = match rng.below(10) {
        0 => 0,
        1 => 1,
        2 => 2,
        3..=6 => 3.min(maxv),
        _ => rng.range(1, maxv as u64) as u32,
    };
    let tight = rng.below(100) < opts.tight_pct as u64;
    let mut capacity = if tight { rng.range(0, 40) as u32 } else { *rng.pick(&[48u32, 96, 96, 1 << 16]) };
    if opts.ample_only {
        capacity = 1 << 16;
    }
    if kind == Kind::Zbdd {
        // the manager cannot be created without room for the tautology chain
        capacity = capacity.max(opts.max_vars + 4);
    }
    let cache = *rng.pick(&[1u32, 1, 2, 16, 1024]);
    let threads = *rng.pick(&opts.threads);
    Config {
        kind,
        vars,
        capacity,
        term_capacity: if tight && rng.bool() { rng.range(0, 6) as u32 } else { 64 },
        cache,
        threads,
        split_depth: if threads > 1 { Some(*rng.pick(&[0u32, 1, 2, 30])) } else { None },
        probe: capacity < 100 && threads == 1,
        oom_ok: capacity < 100,
        unguarded: false,
        io_faults: opts.io_mode == 1,
        io_corrupt: opts.io_mode == 2,
        io_seed: rng.next(),
    }
}

/// program for the capacity sweeps (C14): a generated history followed by a target
/// instruction of one of the allocating kinds
pub fn gen_sweep_program(seed: u64, run: u64, opts: &GenOpts) -> Program {
    gen_program_tail(seed, run, opts, true)
}

pub fn gen_program(seed: u64, run: u64, opts: &GenOpts) -> Program {
    gen_program_tail(seed, run, opts, false)
}

fn is_target(i: &Instr) -> bool {
    use Instr::*;
    matches!(
        i,
        Var { .. } | NotVar { .. } | Table { .. } | Not { .. } | Bin { .. } | Ite { .. } | Restrict { .. } | Quantify { .. }
            | ApplyQuant { .. } | Subst { .. } | PickCubeDd { .. } | PickCubeDdSet { .. } | ZSingleton { .. } | ZBin { .. }
            | ZUn { .. } | ZMakeNode { .. } | NConst { .. } | NVar { .. } | NBin { .. } | NIte { .. } | NRestrict { .. }
            | TVar { .. } | TNot { .. } | TNotEdgeOwned { .. } | TBin { .. } | TIte { .. } | Dddmp { .. }
    )
}

fn gen_program_tail(seed: u64, run: u64, opts: &GenOpts, target: bool) -> Program {
    let mut crng = Rng::new(seed, run, STREAM_CONFIG);
    let config = gen_config(&mut crng, opts);
    let mut weights = [0u32; NCLASS];
    for c in 0..NCLASS {
        // swarm: each class is off / low / normal / high in this run
        let swarm = *crng.pick(&[0u32, 1, 2, 2, 4]);
        let class: Class = unsafe { std::mem::transmute(c) };
        weights[c] = base_weight(class, config.kind) * opts.emphasis[c] * swarm;
    }
    weights[Class::Leaf as usize] = weights[Class::Leaf as usize].max(40);
    weights[Class::Binary as usize] = weights[Class::Binary as usize].max(40);
    if !opts.allow_order {
        weights[Class::Order as usize] = 0;
    }
    if !opts.allow_names {
        weights[Class::Names as usize] = 0;
    }
    if !opts.allow_dddmp {
        weights[Class::Dddmp as usize] = 0;
    }
    let len = crng.range(opts.min_len as u64, opts.max_len as u64) as usize;
    let mut g = Gen {
        rng: Rng::new(seed, run, STREAM_WORKLOAD),
        model: Model::new(config.kind, config.vars),
        opts,
        weights,
        out: vec![],
    };
    // ZBDD reordering with live functions is a known finding (C08); an order installed while
    // the manager holds no function is not affected, so every ZBDD workload still sees
    // variable orders where variable number and level differ
    if config.kind == Kind::Zbdd && opts.allow_order && !opts.zbdd_order && config.vars >= 2 && g.rng.chance(1, 2) {
        let mut vars: Vec<u32> = (0..config.vars).collect();
        g.rng.shuffle(&mut vars);
        let seq = g.rng.bool();
        g.push(Instr::Order { order: vars, seq });
    }
    while g.out.len() < len {
        g.step();
    }
    if target {
        for _ in 0..200 {
            match g.rng.below(10) {
                0 => g.leaf(),
                1 => g.unary(),
                2 | 3 => g.binary(),
                4 => g.ite(),
                5 | 6 => g.quant(),
                7 => g.subst(),
                8 => g.pick(),
                _ => {
                    if g.model.kind == Kind::Zbdd && g.rng.bool() {
                        g.zops()
                    } else if g.opts.allow_dddmp && g.model.kind != Kind::Tdd {
                        g.dddmp()
                    } else {
                        g.binary()
                    }
                }
            }
            if g.out.last().is_some_and(is_target) {
                break;
            }
        }
    }
    Program { config, instrs: g.out }
}

/// generate `len` more instructions continuing from `model` (engine E2 segments)
pub fn gen_from(seed: u64, run: u64, opts: &GenOpts, model: Model, len: usize) -> (Vec<Instr>, Model) {
    let mut crng = Rng::new(seed, run, STREAM_CONFIG);
    let mut weights = [0u32; NCLASS];
    for c in 0..NCLASS {
        let swarm = *crng.pick(&[0u32, 1, 2, 2, 4]);
        let class: Class = unsafe { std::mem::transmute(c) };
        weights[c] = base_weight(class, model.kind) * opts.emphasis[c] * swarm;
    }
    weights[Class::Leaf as usize] = weights[Class::Leaf as usize].max(30);
    weights[Class::Binary as usize] = weights[Class::Binary as usize].max(60);
    weights[Class::Order as usize] = 0;
    weights[Class::Names as usize] = 0;
    weights[Class::Dddmp as usize] = 0;
    weights[Class::AddVars as usize] = 0;
    let mut g = Gen { rng: Rng::new(seed, run, STREAM_WORKLOAD), model, opts, weights, out: vec![] };
    let mut guard = 0;
    while g.out.len() < len && guard < 10 * len + 20 {
        g.step();
        guard += 1;
    }
    (g.out, g.model)
}
