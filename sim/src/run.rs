//! Run one program against the implementation and the model.

use crate::exec::*;
use crate::model::Model;
use crate::prog::*;

#[derive(Clone, Debug)]
pub struct RunOpts {
    pub audits: bool,
    pub log: bool,
    pub finish: bool,
    /// C14: after the program, drop all but the last instruction's operands, collect and
    /// execute the last instruction again
    pub retry_target: bool,
    /// C14: what the retry needed in the ample-capacity run (live, delta, live_terms, delta_terms)
    pub retry_need: Option<RetryInfo>,
}
impl Default for RunOpts {
    fn default() -> Self {
        RunOpts { audits: true, log: false, finish: true, retry_target: false, retry_need: None }
    }
}

thread_local! {
    static LAST_PANIC: std::cell::RefCell<Option<String>> = const { std::cell::RefCell::new(None) };
}

/// Install a panic hook that records the message instead of printing it
pub fn install_quiet_panic_hook() {
    std::panic::set_hook(Box::new(|info| {
        let msg = format!("{}", info);
        if std::env::var_os("VERIF_PANIC_VERBOSE").is_some() {
            eprintln!("PANIC: {}", msg);
        }
        LAST_PANIC.with(|p| *p.borrow_mut() = Some(msg));
    }));
}

pub fn kind_supported(kind: Kind) -> bool {
    match kind {
        Kind::MtbddI | Kind::MtbddF => cfg!(not(feature = "pointer")),
        _ => true,
    }
}

pub fn last_panic() -> String {
    LAST_PANIC.with(|p| p.borrow_mut().take()).unwrap_or_else(|| "<no message>".into())
}

/// machine that may be moved to another (simulated) thread
#[cfg(not(feature = "pointer"))]
pub fn make_machine_send(cfg: &Config) -> Box<dyn Machine + Send> {
    match cfg.kind {
        Kind::Bdd => Box::new(crate::kinds::bdd::Mach::new(cfg)),
        Kind::Bcdd => Box::new(crate::kinds::bcdd::Mach::new(cfg)),
        Kind::Zbdd => Box::new(crate::kinds::zbdd::Mach::new(cfg)),
        Kind::Tdd => Box::new(crate::kinds::tdd::Mach::new(cfg)),
        Kind::MtbddI => Box::new(crate::kinds::mtbdd_i::Mach::new(cfg)),
        Kind::MtbddF => Box::new(crate::kinds::mtbdd_f::Mach::new(cfg)),
    }
}

fn make_machine(cfg: &Config) -> Box<dyn Machine> {
    match cfg.kind {
        Kind::Bdd => Box::new(crate::kinds::bdd::Mach::new(cfg)),
        Kind::Bcdd => Box::new(crate::kinds::bcdd::Mach::new(cfg)),
        Kind::Zbdd => Box::new(crate::kinds::zbdd::Mach::new(cfg)),
        Kind::Tdd => Box::new(crate::kinds::tdd::Mach::new(cfg)),
        #[cfg(not(feature = "pointer"))]
        Kind::MtbddI => Box::new(crate::kinds::mtbdd_i::Mach::new(cfg)),
        #[cfg(not(feature = "pointer"))]
        Kind::MtbddF => Box::new(crate::kinds::mtbdd_f::Mach::new(cfg)),
        #[allow(unreachable_patterns)]
        k => panic!("kind {:?} not built", k),
    }
}

/// How long a manager must live before it is dropped so that its collector thread has parked
/// (see `Mach::drop`). On a loaded machine thread start-up takes longer and the leak rate goes
/// up; leaked threads eat process ids (pid_max is 32768 here, 16 workers share it), so the
/// minimum lifetime grows with the number of threads this process already has.
pub fn manager_min_lifetime_us() -> u64 {
    use std::sync::atomic::{AtomicU64, Ordering::Relaxed};
    static CALLS: AtomicU64 = AtomicU64::new(0);
    static CURRENT: AtomicU64 = AtomicU64::new(400);
    if CALLS.fetch_add(1, Relaxed) % 8 == 0 {
        let threads = std::fs::read_to_string("/proc/self/stat")
            .ok()
            .and_then(|s| s.rsplit(')').next().map(|t| t.to_string()))
            .and_then(|t| t.split_whitespace().nth(17).and_then(|x| x.parse::<u64>().ok()))
            .unwrap_or(0);
        CURRENT.store(
            match threads {
                0..=64 => 400,
                65..=200 => 1_000,
                201..=400 => 3_000,
                401..=800 => 10_000,
                _ => 40_000,
            },
            Relaxed,
        );
    }
    CURRENT.load(Relaxed)
}

/// Block until a manager created at `born` has lived long enough to be released (see
/// `manager_min_lifetime_us`). Sleeps instead of spinning: a busy loop on a loaded machine
/// delays the very thread start-up it is waiting for.
pub fn await_manager_lifetime(born: std::time::Instant) {
    let min = std::time::Duration::from_micros(manager_min_lifetime_us());
    let age = born.elapsed();
    if age < min {
        std::thread::sleep(min - age);
    }
}

/// set by the C14 capacity sweep (and its replays): enables the sub-sweeps that create many
/// short-lived managers per instruction
pub static SWEEP_MODE: std::sync::atomic::AtomicBool = std::sync::atomic::AtomicBool::new(false);

pub fn run_program(prog: &Program, o: &RunOpts) -> RunResult {
    if o.retry_target {
        SWEEP_MODE.store(true, std::sync::atomic::Ordering::Relaxed);
    }
    let mut ctx = RunCtx::new(o.audits, o.log);
    ctx.io_seed = prog.config.io_seed;
    ctx.io_faults = prog.config.io_faults;
    ctx.io_corrupt = prog.config.io_corrupt;
    let mut model = Model::new(prog.config.kind, prog.config.vars);
    let mut steps = 0;
    let mut retry = None;
    let res = std::panic::catch_unwind(std::panic::AssertUnwindSafe(|| {
        let mut mach = make_machine(&prog.config);
        if o.audits {
            mach.audit(&model, &mut ctx);
        }
        for (i, ins) in prog.instrs.iter().enumerate() {
            if ctx.failed() && ctx.stop_on_violation {
                break;
            }
            ctx.step = i;
            mach.step(ins, &mut model, &mut ctx);
            steps = i + 1;
        }
        if o.retry_target && !ctx.failed() {
            if let Some(ins) = prog.instrs.last() {
                ctx.step = prog.instrs.len() - 1;
                retry = mach.retry(ins, &mut model, &mut ctx);
                if let (Some(r), Some(need)) = (retry, o.retry_need) {
                    let room = (prog.config.capacity as usize).saturating_sub(r.live) >= need.delta
                        && (prog.config.term_capacity as usize).saturating_sub(r.live_terms) >= need.delta_terms;
                    // the need was learnt in the run with ample capacity: it carries over only if the
                    // instruction reads the same things here (an earlier out-of-memory result may
                    // have left other operands or another substitution behind)
                    let comparable = r.inputs == need.inputs && r.live == need.live && r.live_terms == need.live_terms;
                    if comparable {
                        ctx.stats.bump("probe.retry_comparable");
                    }
                    if comparable && room && !r.ok {
                        ctx.violate(
                            &["C14"],
                            "retry-fails",
                            format!(
                                "{:?} still fails after drop + gc: {} inner nodes / {} terminals alive, capacity {}/{}, the operation needs {} + {}",
                                ins, r.live, r.live_terms, prog.config.capacity, prog.config.term_capacity, need.delta, need.delta_terms
                            ),
                        );
                    }
                    if r.ok {
                        ctx.stats.bump("probe.retry_after_oom_succeeded");
                    }
                }
            }
        }
        if o.finish && !ctx.failed() {
            mach.finish(&mut model, &mut ctx);
        }
        drop(mach);
    }));
    if res.is_err() {
        let msg = LAST_PANIC.with(|p| p.borrow_mut().take()).unwrap_or_else(|| "<no message>".into());
        if msg.contains("could not build thread pool") || msg.contains("failed to spawn thread") || msg.contains("Resource temporarily unavailable") {
            // the environment ran out of threads / address space: not a verdict about OxiDD
            eprintln!("HARNESS-RESOURCE: {}", msg.replace('\n', " | "));
            std::process::exit(2);
        }
        let ins = prog.instrs.get(ctx.step);
        let p = ins.map(prop_of).unwrap_or("C05");
        let mut props = vec![p];
        if prog.config.oom_ok {
            props.push("C14");
        }
        ctx.violate(&props, "panic", format!("panic during {:?}: {}", ins, msg.replace('\n', " | ")));
    }
    RunResult {
        violations: ctx.violations,
        stats: ctx.stats,
        obs_digest: ctx.obs.0,
        ids_digest: ctx.ids.0,
        steps,
        log: ctx.log,
        peak_inner: ctx.peak_inner,
        peak_terms: ctx.peak_terms,
        retry,
    }
}
