//! Executor side: shared types for all diagram kinds (violations, run context, the
//! `Machine` trait). The kind-specific machines live in `kinds/*` and include
//! `exec_body.rs` so that they are compiled against concrete oxidd types.

use crate::model::{Den, Model};
use crate::num::NumTab;
use crate::prog::*;
use crate::rng::Fnv;
use crate::tt::TT;
use crate::tvl::TvlTab;
use serde::{Deserialize, Serialize};
use std::collections::BTreeMap;

#[derive(Clone, Debug, Serialize, Deserialize, PartialEq, Eq)]
pub struct Violation {
    /// properties this failure falsifies
    pub props: Vec<String>,
    /// violation class (stable identifier used by shrinking and known findings)
    pub class: String,
    /// instruction index (usize::MAX = tear-down)
    pub step: usize,
    pub detail: String,
}

#[derive(Default, Clone, Debug, Serialize, Deserialize)]
pub struct Stats {
    pub c: BTreeMap<String, u64>,
}
impl Stats {
    #[inline]
    pub fn bump(&mut self, k: &str) {
        self.add(k, 1)
    }
    pub fn add(&mut self, k: &str, n: u64) {
        if let Some(v) = self.c.get_mut(k) {
            *v += n;
        } else {
            self.c.insert(k.to_string(), n);
        }
    }
    pub fn merge(&mut self, o: &Stats) {
        for (k, v) in &o.c {
            self.add(k, *v)
        }
    }
    pub fn get(&self, k: &str) -> u64 {
        self.c.get(k).copied().unwrap_or(0)
    }
}

/// Terminal value as seen by the independent walk
#[derive(Clone, Copy, Debug, PartialEq)]
pub enum TermCode {
    Bool(bool),
    Num(Scalar),
    /// internal tvl code: 0 = false, 1 = unknown, 2 = true
    Tvl(u8),
}

pub struct RunCtx {
    pub step: usize,
    pub violations: Vec<Violation>,
    pub stats: Stats,
    /// digest of everything observed (result denotations, node counts, orders, ...);
    /// identical across builds and repeated executions of one program
    pub obs: Fnv,
    /// digest that additionally includes node ids (determinism of one build)
    pub ids: Fnv,
    pub log: Option<Vec<String>>,
    /// audits after every step (A1-A9, A11, A12)
    pub audits: bool,
    /// stop executing after the first violation
    pub stop_on_violation: bool,
    pub io_seed: u64,
    pub io_faults: bool,
    pub io_corrupt: bool,
    /// an allocation failed earlier in this run (then every later failure also falsifies C14)
    pub oom_seen: bool,
    pub peak_inner: usize,
    pub peak_terms: usize,
    /// other threads operate on the same manager right now (engine E2): no whole-manager
    /// audits, results are judged through a walk of the returned handle only
    pub concurrent: bool,
    /// E2: another thread may reorder concurrently: nothing order-dependent is judged
    pub order_unstable: bool,
    /// called before every whole-manager audit (E2: wait until the collector thread and
    /// the workers are idle, so that the audit sees a quiescent manager)
    pub pre_audit: Option<fn()>,
}

impl RunCtx {
    pub fn new(audits: bool, log: bool) -> RunCtx {
        RunCtx {
            step: 0,
            violations: vec![],
            stats: Stats::default(),
            obs: Fnv::default(),
            ids: Fnv::default(),
            log: if log { Some(vec![]) } else { None },
            audits,
            stop_on_violation: true,
            io_seed: 0,
            io_faults: false,
            io_corrupt: false,
            oom_seen: false,
            peak_inner: 0,
            peak_terms: 0,
            concurrent: false,
            order_unstable: false,
            pre_audit: None,
        }
    }
    pub fn violate(&mut self, props: &[&str], class: &str, detail: String) {
        if let Some(l) = self.log.as_mut() {
            l.push(format!("VIOLATION step={} class={} {}", self.step, class, detail));
        }
        let mut props: Vec<&str> = props.to_vec();
        if self.oom_seen && !props.contains(&"C14") {
            props.push("C14");
        }
        self.violations.push(Violation {
            props: props.iter().map(|s| s.to_string()).collect(),
            class: class.to_string(),
            step: self.step,
            detail,
        });
    }
    pub fn logf(&mut self, f: impl FnOnce() -> String) {
        if let Some(l) = self.log.as_mut() {
            l.push(f());
        }
    }
    pub fn failed(&self) -> bool {
        !self.violations.is_empty()
    }
}

pub trait Machine {
    /// execute one instruction against implementation and model, check the oracle
    fn step(&mut self, ins: &Instr, model: &mut Model, ctx: &mut RunCtx);
    /// audits A1-A12 at a quiescent point
    fn audit(&mut self, model: &Model, ctx: &mut RunCtx);
    /// tear-down: drop everything, gc, A10 (initial node count, capacity probe)
    fn finish(&mut self, model: &mut Model, ctx: &mut RunCtx);
    /// C14: drop everything but the operands of `ins`, collect, execute `ins` again.
    /// Returns (inner nodes alive after the collection, inner nodes the instruction
    /// added, terminals alive after the collection, terminals added, success); None if
    /// the instruction is not applicable (operands missing)
    fn retry(&mut self, ins: &Instr, model: &mut Model, ctx: &mut RunCtx) -> Option<RetryInfo>;
    /// E2: a second register file on the same manager for another simulated thread
    fn attach_boxed(&self) -> Box<dyn Machine + Send>;
    /// E2: hand all live registers (with their model denotations) over as opaque handles
    fn export_live(&mut self, model: &mut Model) -> Box<dyn std::any::Any + Send>;
    /// E2: keep handles exported by another thread's machine alive and include them in
    /// the audits (denotation, canonicity across threads, reference counts)
    fn import_foreign(&mut self, handles: Box<dyn std::any::Any + Send>);
    /// drop the foreign handles again
    fn clear_foreign(&mut self);
}

#[derive(Clone, Copy, Debug, Serialize, Deserialize)]
pub struct RetryInfo {
    pub live: usize,
    pub delta: usize,
    pub live_terms: usize,
    pub delta_terms: usize,
    pub ok: bool,
    /// digest of what the instruction reads at the time of the retry (denotations of its
    /// operands, content of its substitution slot, variable count and order): a need learnt in
    /// one run applies to another run only if the instruction does the same thing there
    #[serde(default)]
    pub inputs: u64,
}

/// Property tag of the oracle for an instruction's result
pub fn prop_of(ins: &Instr) -> &'static str {
    use Instr::*;
    match ins {
        Const { .. } | Table { .. } | Var { .. } | NotVar { .. } | Not { .. } | NotOwned { .. } | Bin { .. } | Ite { .. }
        | Cof { .. } | SatValid { .. } | EvalAll { .. } => "C02",
        Restrict { .. } | Quantify { .. } | ApplyQuant { .. } | SubstNew { .. } | SubstDrop { .. } | Subst { .. } => "C04",
        PickCube { .. } | PickCubeDd { .. } | PickCubeDdSet { .. } | PickUniform { .. } => "C13",
        SatCount { .. } | NatOps { .. } => "C12",
        Dddmp { .. } => "C15",
        ZConst { .. } | ZSingleton { .. } | ZBin { .. } | ZUn { .. } | ZMakeNode { .. } => "C09",
        NConst { .. } | NVar { .. } | NBin { .. } | NIte { .. } | NRestrict { .. } => "C10",
        TConst { .. } | TVar { .. } | TNot { .. } | TNotEdgeOwned { .. } | TBin { .. } | TIte { .. } | TCof { .. } => "C11",
        Order { .. } => "C08",
        AddVars { .. } | AddVarsInReorder { .. } | AddNamed { .. } | AddNamedMap { .. } | SetName { .. } => "C16",
        Clone { .. } | Drop { .. } | Gc => "C05",
        NodeCount { .. } | BigCount { .. } => "C03",
    }
}

// ---- denotation composition used by the independent node walk ----------------------

pub fn terminal_den(kind: Kind, n: u32, code: TermCode) -> Result<Den, String> {
    Ok(match (kind, code) {
        (Kind::Bdd | Kind::Bcdd, TermCode::Bool(b)) => Den::B(TT::constant(n, b)),
        // ZBDD terminals: Empty = ∅, Base = {∅}
        (Kind::Zbdd, TermCode::Bool(false)) => Den::B(TT::zero(n)),
        (Kind::Zbdd, TermCode::Bool(true)) => Den::B(TT::base(n)),
        (Kind::MtbddI | Kind::MtbddF, TermCode::Num(s)) => {
            Den::N(NumTab { n, v: vec![s; 1usize << n] })
        }
        (Kind::Tdd, TermCode::Tvl(c)) => Den::T(TvlTab { n, v: vec![c; crate::tvl::pow3(n)] }),
        _ => return Err(format!("terminal {:?} does not fit kind {:?}", code, kind)),
    })
}

/// denotation of an inner node labelled with variable `var` from its children's
pub fn node_den(kind: Kind, var: u32, ch: &[Den]) -> Result<Den, String> {
    Ok(match kind {
        Kind::Bdd | Kind::Bcdd => {
            let (t, e) = (ch[0].b(), ch[1].b());
            Den::B(TT::var(t.n, var).ite(t, e))
        }
        Kind::Zbdd => {
            let (hi, lo) = (ch[0].b(), ch[1].b());
            // sets of hi must not contain var (ordering); checked by audit A1
            Den::B(lo.or(&hi.fam_add_var(var)))
        }
        Kind::MtbddI | Kind::MtbddF => {
            let (t, e) = (ch[0].n(), ch[1].n());
            let n = t.n;
            Den::N(NumTab {
                n,
                v: (0..1u32 << n).map(|a| if a >> var & 1 == 1 { t.v[a as usize] } else { e.v[a as usize] }).collect(),
            })
        }
        Kind::Tdd => {
            // children: true, unknown, false
            let (t, u, f) = (ch[0].t(), ch[1].t(), ch[2].t());
            let n = t.n;
            let p = crate::tvl::pow3(var);
            Den::T(TvlTab {
                n,
                v: (0..crate::tvl::pow3(n))
                    .map(|a| match (a / p) % 3 {
                        2 => t.v[a],
                        1 => u.v[a],
                        _ => f.v[a],
                    })
                    .collect(),
            })
        }
    })
}

pub fn negate_den(d: &Den) -> Den {
    match d {
        Den::B(t) => Den::B(t.not()),
        other => other.clone(),
    }
}

/// result of executing one program
#[derive(Clone, Debug, Serialize, Deserialize)]
pub struct RunResult {
    pub violations: Vec<Violation>,
    pub stats: Stats,
    pub obs_digest: u64,
    pub ids_digest: u64,
    pub steps: usize,
    pub log: Option<Vec<String>>,
    pub peak_inner: usize,
    pub peak_terms: usize,
    pub retry: Option<RetryInfo>,
}
