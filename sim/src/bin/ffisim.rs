//! Engine E4: histories through the C API of oxidd-ffi-c, used exactly as a C client
//! uses it: this binary links against the shipped `liboxidd_ffi_c.so` and declares the
//! exported functions itself (no hooks, no access to Rust internals). Every call is
//! mirrored on the reference model; ownership is tracked by the harness.
//!
//!   ffisim campaign --seed 1 --from 0 --to 1000 --out res.json
//!   ffisim replay <file> ;  ffisim shrink <file> --out <file> ; ffisim gen ...

use oxsim::checks::*;
use oxsim::exec::{Stats, Violation};
use oxsim::generate::*;
use oxsim::model::{Den, Model};
use oxsim::prog::*;
use oxsim::rng::Fnv;
use oxsim::tt::TT;
use serde::{Deserialize, Serialize};
use std::ffi::{c_char, c_void};
use std::io::Write;

#[repr(C)]
#[derive(Clone, Copy)]
pub struct Mgr {
    p: *const c_void,
}
#[repr(C)]
#[derive(Clone, Copy, PartialEq, Eq, Debug)]
pub struct H {
    p: *const c_void,
    i: usize,
}
const INVALID: H = H { p: std::ptr::null(), i: 0 };
#[repr(C)]
pub struct HPair {
    first: H,
    second: H,
}
#[repr(C)]
#[derive(Clone, Copy)]
pub struct VarRange {
    start: u32,
    end: u32,
}
#[repr(C)]
#[derive(Clone, Copy)]
pub struct DupResult {
    added: VarRange,
    present_var: u32,
}
#[repr(C)]
pub struct Assignment {
    data: *mut i8,
    len: usize,
}
#[repr(C)]
#[derive(Clone, Copy)]
pub struct VarBool {
    var: u32,
    val: bool,
}
#[repr(C)]
pub struct Natural {
    ptr: *mut u64,
    len: u64,
    shl: u64,
}
#[repr(C)]
pub struct CString {
    data: *const c_char,
    len: usize,
    cap: usize,
}
pub enum Subst {}

#[link(name = "oxidd_ffi_c")]
unsafe extern "C" {
    fn oxidd_assignment_free(a: Assignment);
    fn oxidd_natural_free(n: Natural);
    fn oxidd_natural_to_string(n: &Natural) -> CString;
    fn oxidd_string_free(s: CString);
}
unsafe extern "C" {
    fn free(p: *mut c_void);
}

macro_rules! c_api {
    ($modname:ident, $($pfx:literal)?) => {};
}
c_api!(unused,);

macro_rules! decl_common {
    ($m:ident, $new:ident, $mref:ident, $munref:ident, $ref_:ident, $unref:ident, $ninner:ident, $nvars:ident, $nnamed:ident,
     $addvars:ident, $addnamed:ident, $setname:ident, $name2var:ident, $varname:ident, $l2v:ident, $v2l:ident, $gc:ident, $order:ident,
     $var:ident, $notvar:ident, $false_:ident, $true_:ident, $cofs:ident, $coft:ident, $coff:ident, $not:ident,
     $and:ident, $or:ident, $nand:ident, $nor:ident, $xor:ident, $equiv:ident, $imp:ident, $impstrict:ident, $ite:ident,
     $ncount:ident, $sat:ident, $valid:ident, $satcount:ident, $satcountd:ident, $pick:ident, $pickdd:ident, $pickset:ident, $eval:ident) => {
        pub mod $m {
            use super::*;
            #[link(name = "oxidd_ffi_c")]
            unsafe extern "C" {
                pub fn $new(inner: usize, cache: usize, threads: u32) -> Mgr;
                pub fn $mref(m: Mgr) -> Mgr;
                pub fn $munref(m: Mgr);
                pub fn $ref_(f: H) -> H;
                pub fn $unref(f: H);
                pub fn $ninner(m: Mgr) -> usize;
                pub fn $nvars(m: Mgr) -> u32;
                pub fn $nnamed(m: Mgr) -> u32;
                pub fn $addvars(m: Mgr, k: u32) -> VarRange;
                pub fn $addnamed(m: Mgr, names: *const *const c_char, count: u32) -> DupResult;
                pub fn $setname(m: Mgr, var: u32, name: *const c_char, len: usize) -> u32;
                pub fn $name2var(m: Mgr, name: *const c_char, len: usize) -> u32;
                pub fn $varname(m: Mgr, var: u32, len: *mut usize) -> *const c_char;
                pub fn $l2v(m: Mgr, level: u32) -> u32;
                pub fn $v2l(m: Mgr, var: u32) -> u32;
                pub fn $gc(m: Mgr) -> usize;
                pub fn $order(m: Mgr, order: *const u32, len: usize);
                pub fn $var(m: Mgr, v: u32) -> H;
                pub fn $notvar(m: Mgr, v: u32) -> H;
                pub fn $false_(m: Mgr) -> H;
                pub fn $true_(m: Mgr) -> H;
                pub fn $cofs(f: H) -> HPair;
                pub fn $coft(f: H) -> H;
                pub fn $coff(f: H) -> H;
                pub fn $not(f: H) -> H;
                pub fn $and(a: H, b: H) -> H;
                pub fn $or(a: H, b: H) -> H;
                pub fn $nand(a: H, b: H) -> H;
                pub fn $nor(a: H, b: H) -> H;
                pub fn $xor(a: H, b: H) -> H;
                pub fn $equiv(a: H, b: H) -> H;
                pub fn $imp(a: H, b: H) -> H;
                pub fn $impstrict(a: H, b: H) -> H;
                pub fn $ite(a: H, b: H, c: H) -> H;
                pub fn $ncount(f: H) -> usize;
                pub fn $sat(f: H) -> bool;
                pub fn $valid(f: H) -> bool;
                pub fn $satcount(f: H, vars: u32) -> Natural;
                pub fn $satcountd(f: H, vars: u32) -> f64;
                pub fn $pick(f: H) -> Assignment;
                pub fn $pickdd(f: H) -> H;
                pub fn $pickset(f: H, lits: H) -> H;
                pub fn $eval(f: H, args: *const VarBool, n: usize) -> bool;
            }
            pub const API: Api = Api {
                new: $new, mref: $mref, munref: $munref, ref_: $ref_, unref: $unref, ninner: $ninner, nvars: $nvars, nnamed: $nnamed,
                addvars: $addvars, addnamed: $addnamed, setname: $setname, name2var: $name2var, varname: $varname, l2v: $l2v, v2l: $v2l,
                gc: $gc, order: $order, var: $var, notvar: $notvar, false_: $false_, true_: $true_, cofs: $cofs, coft: $coft, coff: $coff,
                not: $not, bin: [$and, $or, $nand, $nor, $xor, $equiv, $imp, $impstrict], ite: $ite, ncount: $ncount, sat: $sat,
                valid: $valid, satcount: $satcount, satcountd: $satcountd, pick: $pick, pickdd: $pickdd, pickset: $pickset, eval: $eval,
            };
        }
    };
}

type F1 = unsafe extern "C" fn(H) -> H;
type F2 = unsafe extern "C" fn(H, H) -> H;
pub struct Api {
    new: unsafe extern "C" fn(usize, usize, u32) -> Mgr,
    mref: unsafe extern "C" fn(Mgr) -> Mgr,
    munref: unsafe extern "C" fn(Mgr),
    ref_: F1,
    unref: unsafe extern "C" fn(H),
    ninner: unsafe extern "C" fn(Mgr) -> usize,
    nvars: unsafe extern "C" fn(Mgr) -> u32,
    nnamed: unsafe extern "C" fn(Mgr) -> u32,
    addvars: unsafe extern "C" fn(Mgr, u32) -> VarRange,
    addnamed: unsafe extern "C" fn(Mgr, *const *const c_char, u32) -> DupResult,
    setname: unsafe extern "C" fn(Mgr, u32, *const c_char, usize) -> u32,
    name2var: unsafe extern "C" fn(Mgr, *const c_char, usize) -> u32,
    varname: unsafe extern "C" fn(Mgr, u32, *mut usize) -> *const c_char,
    l2v: unsafe extern "C" fn(Mgr, u32) -> u32,
    #[allow(dead_code)]
    v2l: unsafe extern "C" fn(Mgr, u32) -> u32,
    gc: unsafe extern "C" fn(Mgr) -> usize,
    order: unsafe extern "C" fn(Mgr, *const u32, usize),
    var: unsafe extern "C" fn(Mgr, u32) -> H,
    notvar: unsafe extern "C" fn(Mgr, u32) -> H,
    false_: unsafe extern "C" fn(Mgr) -> H,
    true_: unsafe extern "C" fn(Mgr) -> H,
    cofs: unsafe extern "C" fn(H) -> HPair,
    coft: F1,
    coff: F1,
    not: F1,
    bin: [F2; 8],
    ite: unsafe extern "C" fn(H, H, H) -> H,
    ncount: unsafe extern "C" fn(H) -> usize,
    sat: unsafe extern "C" fn(H) -> bool,
    valid: unsafe extern "C" fn(H) -> bool,
    satcount: unsafe extern "C" fn(H, u32) -> Natural,
    satcountd: unsafe extern "C" fn(H, u32) -> f64,
    pick: unsafe extern "C" fn(H) -> Assignment,
    pickdd: F1,
    pickset: F2,
    eval: unsafe extern "C" fn(H, *const VarBool, usize) -> bool,
}

decl_common!(bdd, oxidd_bdd_manager_new, oxidd_bdd_manager_ref, oxidd_bdd_manager_unref, oxidd_bdd_ref, oxidd_bdd_unref,
    oxidd_bdd_manager_num_inner_nodes, oxidd_bdd_manager_num_vars, oxidd_bdd_manager_num_named_vars, oxidd_bdd_manager_add_vars,
    oxidd_bdd_manager_add_named_vars, oxidd_bdd_manager_set_var_name, oxidd_bdd_manager_name_to_var, oxidd_bdd_manager_var_name,
    oxidd_bdd_manager_level_to_var, oxidd_bdd_manager_var_to_level, oxidd_bdd_manager_gc, oxidd_bdd_manager_set_var_order,
    oxidd_bdd_var, oxidd_bdd_not_var, oxidd_bdd_false, oxidd_bdd_true, oxidd_bdd_cofactors, oxidd_bdd_cofactor_true, oxidd_bdd_cofactor_false,
    oxidd_bdd_not, oxidd_bdd_and, oxidd_bdd_or, oxidd_bdd_nand, oxidd_bdd_nor, oxidd_bdd_xor, oxidd_bdd_equiv, oxidd_bdd_imp, oxidd_bdd_imp_strict,
    oxidd_bdd_ite, oxidd_bdd_node_count, oxidd_bdd_satisfiable, oxidd_bdd_valid, oxidd_bdd_sat_count, oxidd_bdd_sat_count_double,
    oxidd_bdd_pick_cube, oxidd_bdd_pick_cube_dd, oxidd_bdd_pick_cube_dd_set, oxidd_bdd_eval);
decl_common!(bcdd, oxidd_bcdd_manager_new, oxidd_bcdd_manager_ref, oxidd_bcdd_manager_unref, oxidd_bcdd_ref, oxidd_bcdd_unref,
    oxidd_bcdd_manager_num_inner_nodes, oxidd_bcdd_manager_num_vars, oxidd_bcdd_manager_num_named_vars, oxidd_bcdd_manager_add_vars,
    oxidd_bcdd_manager_add_named_vars, oxidd_bcdd_manager_set_var_name, oxidd_bcdd_manager_name_to_var, oxidd_bcdd_manager_var_name,
    oxidd_bcdd_manager_level_to_var, oxidd_bcdd_manager_var_to_level, oxidd_bcdd_manager_gc, oxidd_bcdd_manager_set_var_order,
    oxidd_bcdd_var, oxidd_bcdd_not_var, oxidd_bcdd_false, oxidd_bcdd_true, oxidd_bcdd_cofactors, oxidd_bcdd_cofactor_true, oxidd_bcdd_cofactor_false,
    oxidd_bcdd_not, oxidd_bcdd_and, oxidd_bcdd_or, oxidd_bcdd_nand, oxidd_bcdd_nor, oxidd_bcdd_xor, oxidd_bcdd_equiv, oxidd_bcdd_imp, oxidd_bcdd_imp_strict,
    oxidd_bcdd_ite, oxidd_bcdd_node_count, oxidd_bcdd_satisfiable, oxidd_bcdd_valid, oxidd_bcdd_sat_count, oxidd_bcdd_sat_count_double,
    oxidd_bcdd_pick_cube, oxidd_bcdd_pick_cube_dd, oxidd_bcdd_pick_cube_dd_set, oxidd_bcdd_eval);
decl_common!(zbdd, oxidd_zbdd_manager_new, oxidd_zbdd_manager_ref, oxidd_zbdd_manager_unref, oxidd_zbdd_ref, oxidd_zbdd_unref,
    oxidd_zbdd_manager_num_inner_nodes, oxidd_zbdd_manager_num_vars, oxidd_zbdd_manager_num_named_vars, oxidd_zbdd_manager_add_vars,
    oxidd_zbdd_manager_add_named_vars, oxidd_zbdd_manager_set_var_name, oxidd_zbdd_manager_name_to_var, oxidd_zbdd_manager_var_name,
    oxidd_zbdd_manager_level_to_var, oxidd_zbdd_manager_var_to_level, oxidd_zbdd_manager_gc, oxidd_zbdd_manager_set_var_order,
    oxidd_zbdd_var, oxidd_zbdd_not_var, oxidd_zbdd_false, oxidd_zbdd_true, oxidd_zbdd_cofactors, oxidd_zbdd_cofactor_true, oxidd_zbdd_cofactor_false,
    oxidd_zbdd_not, oxidd_zbdd_and, oxidd_zbdd_or, oxidd_zbdd_nand, oxidd_zbdd_nor, oxidd_zbdd_xor, oxidd_zbdd_equiv, oxidd_zbdd_imp, oxidd_zbdd_imp_strict,
    oxidd_zbdd_ite, oxidd_zbdd_node_count, oxidd_zbdd_satisfiable, oxidd_zbdd_valid, oxidd_zbdd_sat_count, oxidd_zbdd_sat_count_double,
    oxidd_zbdd_pick_cube, oxidd_zbdd_pick_cube_dd, oxidd_zbdd_pick_cube_dd_set, oxidd_zbdd_eval);

// kind-specific entry points
#[link(name = "oxidd_ffi_c")]
unsafe extern "C" {
    fn oxidd_bdd_restrict(f: H, vars: H) -> H;
    fn oxidd_bdd_forall(f: H, vars: H) -> H;
    fn oxidd_bdd_exists(f: H, vars: H) -> H;
    fn oxidd_bdd_unique(f: H, vars: H) -> H;
    fn oxidd_bdd_apply_forall(op: u8, a: H, b: H, vars: H) -> H;
    fn oxidd_bdd_apply_exists(op: u8, a: H, b: H, vars: H) -> H;
    fn oxidd_bdd_apply_unique(op: u8, a: H, b: H, vars: H) -> H;
    fn oxidd_bdd_substitution_new(cap: usize) -> *mut Subst;
    fn oxidd_bdd_substitution_add_pair(s: *mut Subst, var: u32, repl: H);
    fn oxidd_bdd_substitution_free(s: *mut Subst);
    fn oxidd_bdd_substitute(f: H, s: *const Subst) -> H;
    fn oxidd_bcdd_restrict(f: H, vars: H) -> H;
    fn oxidd_bcdd_forall(f: H, vars: H) -> H;
    fn oxidd_bcdd_exists(f: H, vars: H) -> H;
    fn oxidd_bcdd_unique(f: H, vars: H) -> H;
    fn oxidd_bcdd_apply_forall(op: u8, a: H, b: H, vars: H) -> H;
    fn oxidd_bcdd_apply_exists(op: u8, a: H, b: H, vars: H) -> H;
    fn oxidd_bcdd_apply_unique(op: u8, a: H, b: H, vars: H) -> H;
    fn oxidd_bcdd_substitution_new(cap: usize) -> *mut Subst;
    fn oxidd_bcdd_substitution_add_pair(s: *mut Subst, var: u32, repl: H);
    fn oxidd_bcdd_substitution_free(s: *mut Subst);
    fn oxidd_bcdd_substitute(f: H, s: *const Subst) -> H;
    fn oxidd_zbdd_singleton(m: Mgr, v: u32) -> H;
    fn oxidd_zbdd_empty(m: Mgr) -> H;
    fn oxidd_zbdd_base(m: Mgr) -> H;
    fn oxidd_zbdd_subset0(f: H, v: u32) -> H;
    fn oxidd_zbdd_subset1(f: H, v: u32) -> H;
    fn oxidd_zbdd_change(f: H, v: u32) -> H;
    fn oxidd_zbdd_union(a: H, b: H) -> H;
    fn oxidd_zbdd_intsec(a: H, b: H) -> H;
    fn oxidd_zbdd_diff(a: H, b: H) -> H;
    fn oxidd_zbdd_make_node(var: H, hi: H, lo: H) -> H;
}

struct QuantApi {
    restrict: F2,
    quant: [F2; 3],
    apply: [unsafe extern "C" fn(u8, H, H, H) -> H; 3],
    snew: unsafe extern "C" fn(usize) -> *mut Subst,
    sadd: unsafe extern "C" fn(*mut Subst, u32, H),
    sfree: unsafe extern "C" fn(*mut Subst),
    subst: unsafe extern "C" fn(H, *const Subst) -> H,
}
const BDD_Q: QuantApi = QuantApi {
    restrict: oxidd_bdd_restrict,
    quant: [oxidd_bdd_forall, oxidd_bdd_exists, oxidd_bdd_unique],
    apply: [oxidd_bdd_apply_forall, oxidd_bdd_apply_exists, oxidd_bdd_apply_unique],
    snew: oxidd_bdd_substitution_new,
    sadd: oxidd_bdd_substitution_add_pair,
    sfree: oxidd_bdd_substitution_free,
    subst: oxidd_bdd_substitute,
};
const BCDD_Q: QuantApi = QuantApi {
    restrict: oxidd_bcdd_restrict,
    quant: [oxidd_bcdd_forall, oxidd_bcdd_exists, oxidd_bcdd_unique],
    apply: [oxidd_bcdd_apply_forall, oxidd_bcdd_apply_exists, oxidd_bcdd_apply_unique],
    snew: oxidd_bcdd_substitution_new,
    sadd: oxidd_bcdd_substitution_add_pair,
    sfree: oxidd_bcdd_substitution_free,
    subst: oxidd_bcdd_substitute,
};

// ---------------------------------------------------------------- the C-API machine

struct CMach {
    kind: Kind,
    api: &'static Api,
    q: Option<&'static QuantApi>,
    m: Mgr,
    cfg: Config,
    regs: Vec<Option<H>>,
    substs: Vec<Option<*mut Subst>>,
    /// number of owned references the harness holds (valid handles only)
    owned: u64,
    created: std::time::Instant,
}

struct Ctx {
    step: usize,
    violations: Vec<Violation>,
    stats: Stats,
    obs: Fnv,
}
impl Ctx {
    fn violate(&mut self, class: &str, detail: String) {
        self.violations.push(Violation { props: vec!["C19".into()], class: class.into(), step: self.step, detail });
    }
}

fn binop_index(op: BinOp) -> usize {
    match op {
        BinOp::And => 0,
        BinOp::Or => 1,
        BinOp::Nand => 2,
        BinOp::Nor => 3,
        BinOp::Xor => 4,
        BinOp::Equiv => 5,
        BinOp::Imp => 6,
        BinOp::ImpStrict => 7,
    }
}
/// numbering of `oxidd_boolean_operator`
fn boolop_c(op: BinOp) -> u8 {
    match op {
        BinOp::And => 0,
        BinOp::Or => 1,
        BinOp::Xor => 2,
        BinOp::Equiv => 3,
        BinOp::Nand => 4,
        BinOp::Nor => 5,
        BinOp::Imp => 6,
        BinOp::ImpStrict => 7,
    }
}

impl CMach {
    fn new(cfg: &Config) -> CMach {
        let (api, q): (&'static Api, Option<&'static QuantApi>) = match cfg.kind {
            Kind::Bdd => (&bdd::API, Some(&BDD_Q)),
            Kind::Bcdd => (&bcdd::API, Some(&BCDD_Q)),
            Kind::Zbdd => (&zbdd::API, None),
            k => panic!("no C API for {:?}", k),
        };
        let m = unsafe { (api.new)(cfg.capacity as usize, cfg.cache as usize, cfg.threads) };
        if cfg.vars > 0 {
            unsafe { (api.addvars)(m, cfg.vars) };
        }
        CMach { kind: cfg.kind, api, q, m, cfg: cfg.clone(), regs: vec![None; NREGS], substs: vec![None; NSUBST], owned: 0, created: std::time::Instant::now() }
    }
    fn reg(&self, r: Reg) -> H {
        self.regs.get(r as usize).copied().flatten().unwrap_or(INVALID)
    }
    /// truth table of a handle through oxidd_*_eval on all assignments
    fn tt(&self, h: H, n: u32) -> TT {
        let mut t = TT::zero(n);
        let mut args: Vec<VarBool> = (0..n).map(|v| VarBool { var: v, val: false }).collect();
        for a in 0..(1u32 << n) {
            for v in 0..n {
                args[v as usize].val = a >> v & 1 == 1;
            }
            if unsafe { (self.api.eval)(h, args.as_ptr(), args.len()) } {
                t.set(a, true);
            }
        }
        t
    }
    fn unref_reg(&mut self, r: Reg) {
        if let Some(h) = self.regs[r as usize].take() {
            if !h.p.is_null() {
                unsafe { (self.api.unref)(h) };
                self.owned -= 1;
            }
        }
    }
    /// store a returned (owned) handle; judge it against the model
    fn put(&mut self, d: Reg, h: H, exp: Option<Den>, any_invalid_operand: bool, ins: &Instr, model: &mut Model, ctx: &mut Ctx) {
        self.unref_reg(d);
        if h.p.is_null() {
            ctx.stats.bump("fault.invalid_handle_returned");
            if !any_invalid_operand && !self.cfg.oom_ok {
                ctx.violate("unexpected-invalid", format!("{:?}: returned an invalid handle although capacity {} is ample", ins, self.cfg.capacity));
            }
            self.regs[d as usize] = Some(INVALID);
            model.regs[d as usize] = None;
            return;
        }
        self.owned += 1;
        self.regs[d as usize] = Some(h);
        if any_invalid_operand {
            ctx.violate("invalid-operand-accepted", format!("{:?}: an operand was invalid but the result is a valid handle", ins));
            model.regs[d as usize] = None;
            return;
        }
        match exp {
            None => {
                ctx.violate("unexpected-handle", format!("{:?}: the model expects no result", ins));
                model.regs[d as usize] = None;
            }
            Some(e) => {
                let t = self.tt(h, model.n);
                ctx.obs.u64(Den::B(t.clone()).digest());
                let judged_by_predicate = matches!(ins, Instr::PickCubeDd { .. } | Instr::PickCubeDdSet { .. });
                if !judged_by_predicate && &t != e.b() {
                    ctx.violate("wrong-result", format!("{:?}: C API result denotes {}, Rust API / model {}", ins, t.hex(), e.short()));
                }
                let nc = unsafe { (self.api.ncount)(h) };
                let canon = model.canon_size(&Den::B(t.clone()));
                if nc != canon {
                    ctx.violate("node-count", format!("{:?}: oxidd_*_node_count = {}, canonical size {}", ins, nc, canon));
                }
                model.regs[d as usize] = Some(Den::B(t));
            }
        }
    }
    fn cube(&mut self, pos: u32, neg: u32, n: u32) -> H {
        unsafe {
            let mut c = (self.api.true_)(self.m);
            for v in 0..n {
                let lit = if pos >> v & 1 == 1 {
                    (self.api.var)(self.m, v)
                } else if neg >> v & 1 == 1 {
                    (self.api.notvar)(self.m, v)
                } else {
                    continue;
                };
                let nc = (self.api.bin[0])(c, lit);
                if !lit.p.is_null() {
                    (self.api.unref)(lit);
                }
                if !c.p.is_null() {
                    (self.api.unref)(c);
                }
                c = nc;
            }
            c
        }
    }
    fn free_tmp(&self, h: H) {
        if !h.p.is_null() {
            unsafe { (self.api.unref)(h) };
        }
    }

    fn step(&mut self, ins: &Instr, model: &mut Model, ctx: &mut Ctx) {
        use Instr::*;
        let n = model.n;
        let api = self.api;
        let m = self.m;
        ctx.stats.bump("instr.total");
        // operands: an empty/invalid register is passed as an INVALID handle on purpose
        let ops = ins.operands();
        let any_inv = ops.iter().any(|r| self.reg(*r).p.is_null());
        if any_inv && !ops.is_empty() {
            ctx.stats.bump("fault.invalid_handle_passed");
        }
        let exp1 = |model: &Model| model.eval(ins).and_then(|w| w.first().cloned()).and_then(|x| x.1);
        unsafe {
            match ins {
                Clone { d, a } => {
                    let h = (api.ref_)(self.reg(*a));
                    let e = exp1(model);
                    self.put(*d, h, e, any_inv, ins, model, ctx);
                }
                Drop { a } => {
                    self.unref_reg(*a);
                    model.regs[*a as usize] = None;
                }
                Gc => {
                    let before = (api.ninner)(m);
                    let r = (api.gc)(m);
                    let after = (api.ninner)(m);
                    ctx.stats.bump("fault.gc");
                    if before - after != r {
                        ctx.violate("gc-return", format!("oxidd_*_manager_gc returned {} but {} nodes disappeared", r, before - after));
                    }
                    self.liveness(after, model, ctx);
                }
                AddVars { k } => {
                    if n + *k as u32 > 8 || self.low_capacity(2 * n as usize + *k as usize + 2) {
                        return;
                    }
                    let r = (api.addvars)(m, *k as u32);
                    model.add_vars(*k as u32);
                    if r.start != n || r.end != n + *k as u32 {
                        ctx.violate("add-vars-range", format!("add_vars({}) returned {}..{}", k, r.start, r.end));
                    }
                }
                AddNamed { names, .. } | AddNamedMap { names } => {
                    if n + names.len() as u32 > 8 || names.iter().any(|s| s.contains('\0')) || self.low_capacity(2 * n as usize + names.len() + 2) {
                        return;
                    }
                    let cs: Vec<std::ffi::CString> = names.iter().map(|s| std::ffi::CString::new(s.as_str()).unwrap()).collect();
                    let ptrs: Vec<*const c_char> = cs.iter().map(|c| c.as_ptr()).collect();
                    let exp = model.add_named(names, None);
                    let r = (api.addnamed)(m, ptrs.as_ptr(), ptrs.len() as u32);
                    match exp {
                        Ok(range) => {
                            if r.present_var != u32::MAX || r.added.start != range.start || r.added.end != range.end {
                                ctx.violate("add-named", format!("{:?}: got {}..{} present {}, expected {:?}", ins, r.added.start, r.added.end, r.present_var, range));
                            }
                        }
                        Err(e) => {
                            if r.present_var != e.present_var || r.added.start != e.added.start || r.added.end != e.added.end {
                                ctx.violate("add-named", format!("{:?}: got {}..{} present {}, expected {:?}", ins, r.added.start, r.added.end, r.present_var, e));
                            }
                        }
                    }
                }
                SetName { v, name } => {
                    if *v as u32 >= n {
                        return;
                    }
                    let exp = model.set_name(*v as u32, name);
                    let r = (api.setname)(m, *v as u32, name.as_ptr().cast(), name.len());
                    let want = match exp {
                        Ok(()) => u32::MAX,
                        Err(e) => e.present_var,
                    };
                    if r != want {
                        ctx.violate("set-name", format!("{:?}: returned {}, expected {}", ins, r, want));
                    }
                }
                Order { order, .. } => {
                    if order.iter().any(|&v| v >= n) {
                        return;
                    }
                    let mut seen = 0u64;
                    for &v in order {
                        if seen >> v & 1 == 1 {
                            return;
                        }
                        seen |= 1 << v;
                    }
                    let used = (api.ninner)(m);
                    if self.low_capacity(2 * used + 2 * n as usize + 8) {
                        return;
                    }
                    if self.kind == Kind::Zbdd && (used > n as usize || self.regs.iter().any(|r| r.is_some())) && self.low_capacity(4096) {
                        return; // see histsim: running out of nodes inside a reordering aborts (F08)
                    }
                    (api.order)(m, order.as_ptr(), order.len());
                    let observed: Vec<u32> = (0..n).map(|l| (api.l2v)(m, l)).collect();
                    if let Err(e) = model.check_order(order, &observed) {
                        ctx.violate("order", format!("{:?}: {}", ins, e));
                    }
                    if observed.len() == n as usize {
                        model.order = observed.clone();
                    }
                    for v in observed {
                        ctx.obs.u64(v as u64);
                    }
                    ctx.stats.bump("fault.reorder");
                }
                NodeCount { a } => {
                    if let Some(d) = model.reg(*a) {
                        let nc = (api.ncount)(self.reg(*a));
                        if nc != model.canon_size(d) {
                            ctx.violate("node-count", format!("node_count(r{}) = {}, canonical {}", a, nc, model.canon_size(d)));
                        }
                    }
                }
                EvalAll { .. } => {}
                Const { d, val } => {
                    let h = if *val { (api.true_)(m) } else { (api.false_)(m) };
                    let e = exp1(model);
                    self.put(*d, h, e, false, ins, model, ctx);
                }
                Table { d, bits } => {
                    if n > 6 {
                        return;
                    }
                    let h = self.build_table(n, n, *bits, 0);
                    let e = exp1(model);
                    self.put(*d, h, e, false, ins, model, ctx);
                }
                Var { d, v } | NotVar { d, v } => {
                    if *v as u32 >= n {
                        return;
                    }
                    let h = if matches!(ins, Var { .. }) { (api.var)(m, *v as u32) } else { (api.notvar)(m, *v as u32) };
                    let e = exp1(model);
                    self.put(*d, h, e, false, ins, model, ctx);
                }
                Not { d, a } | NotOwned { d, a } => {
                    let h = (api.not)(self.reg(*a));
                    let e = model.reg(*a).map(|x| Den::B(x.b().not()));
                    self.put(*d, h, e, any_inv, ins, model, ctx);
                }
                Bin { d, op, a, b } => {
                    let h = (api.bin[binop_index(*op)])(self.reg(*a), self.reg(*b));
                    let e = exp1(model);
                    self.put(*d, h, e, any_inv, ins, model, ctx);
                }
                Ite { d, a, b, c } => {
                    let h = (api.ite)(self.reg(*a), self.reg(*b), self.reg(*c));
                    let e = exp1(model);
                    self.put(*d, h, e, any_inv, ins, model, ctx);
                }
                Cof { d, d2, a, which } => {
                    let w = model.eval(ins);
                    let f = self.reg(*a);
                    match which {
                        0 => {
                            let p = (api.cofs)(f);
                            let (e1, e2) = match &w {
                                Some(w) => (w[0].1.clone(), w[1].1.clone()),
                                None => (None, None),
                            };
                            self.put_opt(*d, p.first, e1, ins, model, ctx);
                            self.put_opt(*d2, p.second, e2, ins, model, ctx);
                        }
                        1 => {
                            let h = (api.coft)(f);
                            self.put_opt(*d, h, w.and_then(|w| w[0].1.clone()), ins, model, ctx);
                        }
                        _ => {
                            let h = (api.coff)(f);
                            self.put_opt(*d, h, w.and_then(|w| w[0].1.clone()), ins, model, ctx);
                        }
                    }
                }
                SatValid { a } => {
                    if let Some(d) = model.reg(*a) {
                        let (s, v) = ((api.sat)(self.reg(*a)), (api.valid)(self.reg(*a)));
                        if s == d.b().is_zero() || v != d.b().is_one() {
                            ctx.violate("sat-valid", format!("r{} = {}: satisfiable {}, valid {}", a, d.short(), s, v));
                        }
                    }
                }
                Restrict { d, a, pos, neg } if self.q.is_some() => {
                    let mask = (1u32 << n) - 1;
                    let c = self.cube(*pos & !*neg & mask, *neg & mask, n);
                    let h = (self.q.unwrap().restrict)(self.reg(*a), c);
                    let cinv = c.p.is_null();
                    self.free_tmp(c);
                    let e = exp1(model);
                    self.put(*d, h, e, any_inv || cinv, ins, model, ctx);
                }
                Quantify { d, q, a, vars } if self.q.is_some() => {
                    let c = self.cube(*vars & ((1u32 << n) - 1), 0, n);
                    let qi = match q {
                        Quant::Forall => 0,
                        Quant::Exists => 1,
                        Quant::Unique => 2,
                    };
                    let h = (self.q.unwrap().quant[qi])(self.reg(*a), c);
                    let cinv = c.p.is_null();
                    self.free_tmp(c);
                    let e = exp1(model);
                    self.put(*d, h, e, any_inv || cinv, ins, model, ctx);
                }
                ApplyQuant { d, q, op, a, b, vars } if self.q.is_some() => {
                    let c = self.cube(*vars & ((1u32 << n) - 1), 0, n);
                    let qi = match q {
                        Quant::Forall => 0,
                        Quant::Exists => 1,
                        Quant::Unique => 2,
                    };
                    let h = (self.q.unwrap().apply[qi])(boolop_c(*op), self.reg(*a), self.reg(*b), c);
                    let cinv = c.p.is_null();
                    self.free_tmp(c);
                    let e = exp1(model);
                    self.put(*d, h, e, any_inv || cinv, ins, model, ctx);
                }
                SubstNew { s, pairs } if self.q.is_some() => {
                    let Some(mp) = model.subst_pairs(pairs) else { return };
                    if pairs.iter().any(|p| self.reg(p.1).p.is_null()) {
                        return;
                    }
                    let q = self.q.unwrap();
                    if let Some(old) = self.substs[*s as usize].take() {
                        (q.sfree)(old);
                    }
                    let sp = (q.snew)(pairs.len());
                    for (v, r) in pairs {
                        (q.sadd)(sp, *v as u32, self.reg(*r));
                    }
                    self.substs[*s as usize] = Some(sp);
                    model.substs[*s as usize] = Some(mp);
                }
                SubstDrop { s } if self.q.is_some() => {
                    if let Some(old) = self.substs[*s as usize].take() {
                        (self.q.unwrap().sfree)(old);
                        model.substs[*s as usize] = None;
                        self.collect_and_check(model, ctx);
                    }
                    model.substs[*s as usize] = None;
                }
                Subst { d, a, s } if self.q.is_some() => {
                    let Some(sp) = self.substs[*s as usize] else { return };
                    let h = (self.q.unwrap().subst)(self.reg(*a), sp);
                    let e = exp1(model);
                    self.put(*d, h, e, any_inv, ins, model, ctx);
                }
                PickCube { a, .. } => {
                    if let Some(d) = model.reg(*a) {
                        let asg = (api.pick)(self.reg(*a));
                        if asg.data.is_null() || asg.len == 0 && n > 0 {
                            if !d.b().is_zero() {
                                ctx.violate("pick-cube", format!("oxidd_*_pick_cube: empty assignment for satisfiable {}", d.short()));
                            }
                        } else {
                            let sl = std::slice::from_raw_parts(asg.data, asg.len);
                            let (mut p, mut ng) = (0u32, 0u32);
                            for (v, &x) in sl.iter().enumerate() {
                                match x {
                                    1 => p |= 1 << v,
                                    0 => ng |= 1 << v,
                                    _ => {}
                                }
                            }
                            if d.b().is_zero() || sl.len() != n as usize || !TT::cube(n, p, ng).implies(d.b()) {
                                ctx.violate("pick-cube", format!("oxidd_*_pick_cube({}) = {:?} is not an implicant", d.short(), sl));
                            }
                        }
                        oxidd_assignment_free(asg);
                    }
                }
                PickCubeDd { d, a, .. } => {
                    let h = (api.pickdd)(self.reg(*a));
                    let src = model.reg(*a).cloned();
                    self.put(*d, h, src.clone(), any_inv, ins, model, ctx);
                    if let (Some(s), Some(Den::B(t))) = (src, model.reg(*d).cloned()) {
                        if !t.implies(s.b()) || (t.is_zero() != s.b().is_zero()) {
                            ctx.violate("pick-cube-dd", format!("oxidd_*_pick_cube_dd({}) = {}", s.short(), t.hex()));
                        }
                    }
                }
                PickCubeDdSet { d, a, pos, neg } => {
                    let mask = (1u32 << n) - 1;
                    let c = self.cube(*pos & !*neg & mask, *neg & mask, n);
                    let h = (api.pickset)(self.reg(*a), c);
                    let cinv = c.p.is_null();
                    self.free_tmp(c);
                    let src = model.reg(*a).cloned();
                    self.put(*d, h, src.clone(), any_inv || cinv, ins, model, ctx);
                    if let (Some(s), Some(Den::B(t))) = (src, model.reg(*d).cloned()) {
                        if !t.implies(s.b()) || (t.is_zero() != s.b().is_zero()) {
                            ctx.violate("pick-cube-dd-set", format!("oxidd_*_pick_cube_dd_set({}) = {}", s.short(), t.hex()));
                        }
                    }
                }
                SatCount { a, extra_vars, .. } => {
                    if let Some(d) = model.reg(*a) {
                        let vars = if self.kind == Kind::Zbdd { n } else { n + (*extra_vars as u32).min(70) };
                        let cnt = d.b().count();
                        let nat = (api.satcount)(self.reg(*a), vars);
                        let cs = oxidd_natural_to_string(&nat);
                        let got = String::from_utf8_lossy(std::slice::from_raw_parts(cs.data.cast::<u8>(), cs.len)).to_string();
                        oxidd_string_free(cs);
                        oxidd_natural_free(nat);
                        let exp = ((cnt as u128) << (vars - n)).to_string();
                        if got != exp {
                            ctx.violate("sat-count", format!("oxidd_*_sat_count({}, {}) = {}, expected {}", d.short(), vars, got, exp));
                        }
                        let dd = (api.satcountd)(self.reg(*a), vars);
                        let ed = cnt as f64 * ((vars - n) as f64).exp2();
                        if (dd - ed).abs() > ed * 1e-9 {
                            ctx.violate("sat-count-double", format!("oxidd_*_sat_count_double({}, {}) = {}, expected {}", d.short(), vars, dd, ed));
                        }
                        ctx.stats.bump("probe.sat_count");
                    }
                }
                ZConst { d, base } if self.kind == Kind::Zbdd => {
                    let h = if *base { oxidd_zbdd_base(m) } else { oxidd_zbdd_empty(m) };
                    let e = exp1(model);
                    self.put(*d, h, e, false, ins, model, ctx);
                }
                ZSingleton { d, v } if self.kind == Kind::Zbdd && (*v as u32) < n => {
                    let h = oxidd_zbdd_singleton(m, *v as u32);
                    let e = exp1(model);
                    self.put(*d, h, e, false, ins, model, ctx);
                }
                ZBin { d, op, a, b } if self.kind == Kind::Zbdd => {
                    let f: F2 = match op {
                        ZOp::Union => oxidd_zbdd_union,
                        ZOp::Intsec => oxidd_zbdd_intsec,
                        ZOp::Diff => oxidd_zbdd_diff,
                    };
                    let h = f(self.reg(*a), self.reg(*b));
                    let e = exp1(model);
                    self.put(*d, h, e, any_inv, ins, model, ctx);
                }
                ZUn { d, op, a, v } if self.kind == Kind::Zbdd && (*v as u32) < n => {
                    let f: unsafe extern "C" fn(H, u32) -> H = match op {
                        ZUnOp::Subset0 => oxidd_zbdd_subset0,
                        ZUnOp::Subset1 => oxidd_zbdd_subset1,
                        ZUnOp::Change => oxidd_zbdd_change,
                    };
                    let h = f(self.reg(*a), *v as u32);
                    let e = exp1(model);
                    self.put(*d, h, e, any_inv, ins, model, ctx);
                }
                ZMakeNode { d, v, hi, lo } if self.kind == Kind::Zbdd && (*v as u32) < n => {
                    let Some(w) = model.eval(ins) else { return };
                    let var = oxidd_zbdd_singleton(m, *v as u32);
                    // make_node consumes hi and lo: pass extra references
                    let (hh, ll) = ((api.ref_)(self.reg(*hi)), (api.ref_)(self.reg(*lo)));
                    let h = oxidd_zbdd_make_node(var, hh, ll);
                    let vinv = var.p.is_null();
                    self.free_tmp(var);
                    self.put(*d, h, w[0].1.clone(), any_inv || vinv, ins, model, ctx);
                }
                _ => {
                    ctx.stats.bump("instr.unsupported");
                }
            }
        }
    }

    fn put_opt(&mut self, d: Reg, h: H, exp: Option<Den>, ins: &Instr, model: &mut Model, ctx: &mut Ctx) {
        // cofactors: an invalid handle is the documented answer for terminals
        if exp.is_none() {
            if !h.p.is_null() {
                ctx.violate("cofactor-of-terminal", format!("{:?}: valid handle for the cofactor of a terminal / invalid function", ins));
                unsafe { (self.api.unref)(h) };
            }
            self.unref_reg(d);
            self.regs[d as usize] = None;
            model.regs[d as usize] = None;
        } else {
            self.put(d, h, exp, false, ins, model, ctx);
        }
    }

    unsafe fn build_table(&self, n: u32, v: u32, bits: u64, fixed: u32) -> H {
        unsafe {
            if v == 0 {
                return if bits >> fixed & 1 == 1 { (self.api.true_)(self.m) } else { (self.api.false_)(self.m) };
            }
            let hi = self.build_table(n, v - 1, bits, fixed | 1 << (v - 1));
            let lo = self.build_table(n, v - 1, bits, fixed);
            let x = (self.api.var)(self.m, v - 1);
            let r = (self.api.ite)(x, hi, lo);
            self.free_tmp(x);
            self.free_tmp(hi);
            self.free_tmp(lo);
            r
        }
    }

    fn low_capacity(&self, need: usize) -> bool {
        if self.cfg.capacity >= 4096 {
            return false;
        }
        let used = unsafe { (self.api.ninner)(self.m) };
        (self.cfg.capacity as usize).saturating_sub(used) < need
    }

    /// all registers still denote what the model says (no function consumed an argument,
    /// no result shares state it should not)
    fn audit(&mut self, model: &Model, ctx: &mut Ctx) {
        unsafe {
            if (self.api.nvars)(self.m) != model.n {
                ctx.violate("num-vars", format!("num_vars {} model {}", (self.api.nvars)(self.m), model.n));
                return;
            }
            if (self.api.nnamed)(self.m) != model.num_named() {
                ctx.violate("num-named", format!("num_named_vars {} model {}", (self.api.nnamed)(self.m), model.num_named()));
            }
            for v in 0..model.n {
                let mut len = 0usize;
                let p = (self.api.varname)(self.m, v, &mut len);
                let got = if p.is_null() { String::new() } else { String::from_utf8_lossy(std::slice::from_raw_parts(p.cast::<u8>(), len)).to_string() };
                if !p.is_null() {
                    free(p.cast_mut().cast());
                }
                if got != model.names[v as usize] {
                    ctx.violate("var-name", format!("var_name({}) = {:?}, model {:?}", v, got, model.names[v as usize]));
                }
                let nm = &model.names[v as usize];
                if !nm.is_empty() {
                    let r = (self.api.name2var)(self.m, nm.as_ptr().cast(), nm.len());
                    if r != v {
                        ctx.violate("name-to-var", format!("name_to_var({:?}) = {}, expected {}", nm, r, v));
                    }
                }
            }
        }
        for r in 0..NREGS {
            match (self.regs[r], model.regs[r].as_ref()) {
                (Some(h), Some(d)) if !h.p.is_null() => {
                    let t = self.tt(h, model.n);
                    if &t != d.b() {
                        ctx.violate("handle-changed", format!("r{} now denotes {}, model says {}", r, t.hex(), d.short()));
                    }
                }
                (Some(h), None) if !h.p.is_null() => ctx.violate("register-sync", format!("harness defect: r{} valid but model empty", r)),
                (None, Some(_)) => ctx.violate("register-sync", format!("harness defect: r{} empty but model filled", r)),
                _ => {}
            }
        }
    }

    /// exact liveness after a collection: what is left is the union of the diagrams of the
    /// handles the client holds (registers, replacement functions inside substitutions)
    fn liveness(&self, after: usize, model: &Model, ctx: &mut Ctx) {
        let mut roots: Vec<&Den> = vec![];
        let mut all_valid = true;
        for r in 0..NREGS {
            match (self.regs[r], model.regs[r].as_ref()) {
                (Some(h), Some(d)) if !h.p.is_null() => roots.push(d),
                (None, None) => {}
                (Some(h), None) if h.p.is_null() => {} // an invalid handle holds nothing
                _ => all_valid = false,
            }
        }
        for sl in model.substs.iter().flatten() {
            for (_, d) in sl {
                roots.push(d);
            }
        }
        if all_valid {
            let exp = model.expected_inner_nodes(&roots);
            ctx.stats.bump("probe.gc_exact_liveness");
            if after != exp {
                ctx.violate("gc-liveness", format!("after gc the manager holds {} inner nodes, the {} handles held by the client need exactly {}", after, roots.len(), exp));
            }
        }
    }

    /// collect, then check liveness (after operations that release references held on the
    /// client's behalf, and before the tear-down releases the client's own)
    fn collect_and_check(&self, model: &Model, ctx: &mut Ctx) {
        let after = unsafe {
            (self.api.gc)(self.m);
            (self.api.ninner)(self.m)
        };
        self.liveness(after, model, ctx);
    }

    fn finish(&mut self, model: &mut Model, ctx: &mut Ctx) {
        if ctx.violations.is_empty() {
            self.collect_and_check(model, ctx);
            if !ctx.violations.is_empty() {
                // the reference counts are off: releasing the handles now could free the manager twice
                return;
            }
        }
        for r in 0..NREGS as u8 {
            self.unref_reg(r);
            model.regs[r as usize] = None;
        }
        if let Some(q) = self.q {
            for s in self.substs.iter_mut() {
                if let Some(p) = s.take() {
                    unsafe { (q.sfree)(p) };
                }
            }
        }
        if self.owned != 0 {
            ctx.violate("harness-ownership", format!("harness still owns {} references", self.owned));
        }
        unsafe {
            (self.api.gc)(self.m);
            let left = (self.api.ninner)(self.m);
            let init = if self.kind == Kind::Zbdd { model.n as usize } else { 0 };
            if left != init {
                ctx.violate("nodes-left", format!("after unref of every handle and gc: {} inner nodes, expected {}", left, init));
            }
            // manager reference counting: one more reference, then drop both
            let m2 = (self.api.mref)(self.m);
            (self.api.munref)(m2);
            // a manager released before its collector thread has parked leaks that thread
            oxsim::run::await_manager_lifetime(self.created);
            (self.api.munref)(self.m);
        }
    }
}

// ---------------------------------------------------------------- running programs

#[derive(Serialize, Deserialize, Clone, Debug)]
pub struct Replay {
    pub engine: String,
    pub check: String,
    pub seed: u64,
    pub run: u64,
    pub batch: String,
    pub features: String,
    pub program: Program,
    pub violation: Violation,
}

#[derive(Serialize, Deserialize, Clone, Default)]
struct RunResult {
    violations: Vec<Violation>,
    stats: Stats,
    obs_digest: u64,
    steps: usize,
}

fn run_program(p: &Program) -> RunResult {
    let mut ctx = Ctx { step: 0, violations: vec![], stats: Stats::default(), obs: Fnv::default() };
    let mut model = Model::new(p.config.kind, p.config.vars);
    let mut mach = CMach::new(&p.config);
    let mut steps = 0;
    for (i, ins) in p.instrs.iter().enumerate() {
        if !ctx.violations.is_empty() {
            break;
        }
        ctx.step = i;
        mach.step(ins, &mut model, &mut ctx);
        if ctx.violations.is_empty() {
            mach.audit(&model, &mut ctx);
        }
        steps = i + 1;
    }
    if ctx.violations.is_empty() {
        ctx.step = usize::MAX;
        mach.finish(&mut model, &mut ctx);
    }
    RunResult { violations: ctx.violations, stats: ctx.stats, obs_digest: ctx.obs.0, steps }
}

fn arg(args: &[String], name: &str) -> Option<String> {
    args.iter().position(|a| a == name).and_then(|i| args.get(i + 1).cloned())
}

fn c19_batches() -> Vec<Batch> {
    use Class::*;
    let mk = |tight: u32| {
        let mut o = GenOpts::base(&[Kind::Bdd, Kind::Bcdd, Kind::Zbdd])
            .emph(Quant, 8)
            .emph(Subst, 8)
            .emph(Pick, 6)
            .emph(SatCount, 6)
            .emph(CloneH, 10)
            .emph(DropH, 10)
            .emph(Gc, 8)
            .emph(Names, 6)
            .emph(Order, 6)
            .emph(ZOps, 10)
            .emph(Leaf, 8);
        o.max_vars = 6;
        o.max_len = 35;
        o.tight_pct = tight;
        o
    };
    vec![Batch { name: "c-api", opts: mk(0), share: 3 }, Batch { name: "c-api-tight", opts: mk(100), share: 2 }]
}

#[derive(Serialize, Deserialize, Default)]
struct CampaignResult {
    runs: u64,
    steps: u64,
    nontrivial_digests: Vec<String>,
    stats: Stats,
    violations: Vec<Replay>,
    samples: Vec<serde_json::Value>,
    obs_xor: String,
    wall_s: f64,
    skipped: u64,
    fault_runs: u64,
    other_violations: std::collections::BTreeMap<String, u64>,
}

fn gen_one(seed: u64, run: u64) -> (Program, &'static str) {
    let bs = c19_batches();
    let b = batch_for_run(&bs, run);
    let name = b.name;
    let mut p = gen_program(seed, run, &b.opts);
    p.config.probe = false;
    p.config.threads = 1;
    (p, name)
}

fn campaign(args: &[String]) -> i32 {
    let seed: u64 = arg(args, "--seed").map(|s| s.parse().unwrap()).unwrap_or(1);
    let from: u64 = arg(args, "--from").map(|s| s.parse().unwrap()).unwrap_or(0);
    let to: u64 = arg(args, "--to").map(|s| s.parse().unwrap()).unwrap_or(100);
    let out = arg(args, "--out");
    let mut prog_f = arg(args, "--progress").map(|p| std::fs::OpenOptions::new().create(true).append(true).open(p).unwrap());
    let mut viol_f = arg(args, "--viol-file").map(|p| std::fs::OpenOptions::new().create(true).append(true).open(p).unwrap());
    let t0 = std::time::Instant::now();
    let mut res = CampaignResult::default();
    let mut ox = 0u64;
    for run in from..to {
        let (p, bname) = gen_one(seed, run);
        if let Some(f) = prog_f.as_mut() {
            let _ = writeln!(f, "BEGIN {} {}", seed, run);
            let _ = f.flush();
        }
        let r = run_program(&p);
        res.runs += 1;
        res.steps += r.steps as u64;
        ox ^= r.obs_digest.rotate_left((run % 63) as u32);
        let faults: u64 = r.stats.c.iter().filter(|(k, _)| k.starts_with("fault.")).map(|(_, v)| *v).sum();
        if faults > 0 {
            res.fault_runs += 1;
        }
        if p.nontrivial() && faults > 0 {
            res.nontrivial_digests.push(format!("{:016x}", p.digest()));
        }
        res.stats.merge(&r.stats);
        if res.samples.len() < 3 && p.instrs.len() <= 20 {
            res.samples.push(serde_json::json!({"run": run, "batch": bname, "program": p}));
        }
        if let Some(v) = r.violations.first() {
            let rp = Replay { engine: "E4".into(), check: "C19".into(), seed, run, batch: bname.into(), features: "liboxidd_ffi_c.so".into(), program: p.clone(), violation: v.clone() };
            if let Some(f) = viol_f.as_mut() {
                let _ = writeln!(f, "{}", serde_json::to_string(&rp).unwrap());
                let _ = f.flush();
            }
            res.violations.push(rp);
            if res.violations.len() >= 3 {
                break;
            }
        }
    }
    if let Some(f) = prog_f.as_mut() {
        let _ = writeln!(f, "DONE {}", seed);
    }
    res.obs_xor = format!("{:016x}", ox);
    res.wall_s = t0.elapsed().as_secs_f64();
    let js = serde_json::to_string(&res).unwrap();
    match out {
        Some(o) => std::fs::write(o, js).unwrap(),
        None => println!("{}", js),
    }
    if res.violations.is_empty() { 0 } else { 1 }
}

fn load(path: &str) -> Replay {
    let s = std::fs::read_to_string(path).unwrap_or_else(|e| {
        eprintln!("cannot read {}: {}", path, e);
        std::process::exit(2)
    });
    serde_json::from_str(&s).unwrap_or_else(|e| {
        eprintln!("cannot parse {}: {}", path, e);
        std::process::exit(2)
    })
}

fn replay(args: &[String]) -> i32 {
    let rp = load(&args[0]);
    let r = run_program(&rp.program);
    for v in &r.violations {
        println!("violation class={} step={} {}", v.class, v.step as i64, v.detail);
    }
    println!("obs_digest={:016x} steps={}", r.obs_digest, r.steps);
    if r.violations.iter().any(|v| v.class == rp.violation.class) {
        println!("REPRODUCED property=C19 class={}", rp.violation.class);
        1
    } else {
        println!("NOT-REPRODUCED property=C19 class={}", rp.violation.class);
        0
    }
}

fn shrink(args: &[String]) -> i32 {
    let mut rp = load(&args[0]);
    let out = arg(args, "--out").expect("--out");
    let fails = |p: &Program| run_program(p).violations.into_iter().find(|v| v.class == rp.violation.class);
    let Some(mut cur) = fails(&rp.program) else {
        eprintln!("shrink: does not reproduce");
        return 2;
    };
    let mut prog = rp.program.clone();
    if cur.step < prog.instrs.len() {
        prog.instrs.truncate(cur.step + 1);
    }
    let mut i = 0;
    let mut budget = 600;
    while i < prog.instrs.len() && budget > 0 {
        let mut cand = prog.clone();
        cand.instrs.remove(i);
        budget -= 1;
        if let Some(v) = fails(&cand) {
            prog = cand;
            cur = v;
        } else {
            i += 1;
        }
    }
    rp.program = prog;
    rp.violation = cur;
    std::fs::write(&out, serde_json::to_string_pretty(&rp).unwrap()).unwrap();
    println!("shrunk to {} instructions -> {}", rp.program.instrs.len(), out);
    0
}

fn gen_cmd(args: &[String]) -> i32 {
    let seed: u64 = arg(args, "--seed").map(|s| s.parse().unwrap()).unwrap_or(1);
    let run: u64 = arg(args, "--run").map(|s| s.parse().unwrap()).expect("--run");
    let out = arg(args, "--out").expect("--out");
    let (p, bname) = gen_one(seed, run);
    let rp = Replay {
        engine: "E4".into(),
        check: "C19".into(),
        seed,
        run,
        batch: bname.into(),
        features: "liboxidd_ffi_c.so".into(),
        program: p,
        violation: Violation { props: vec!["C19".into()], class: arg(args, "--class").unwrap_or("abort".into()), step: 0, detail: "process died during this run".into() },
    };
    std::fs::write(out, serde_json::to_string_pretty(&rp).unwrap()).unwrap();
    0
}

fn main() {
    if std::env::var_os("OXIDD_STACK_SIZE").is_none() {
        unsafe { std::env::set_var("OXIDD_STACK_SIZE", (32 * 1024 * 1024).to_string()) };
    }
    let args: Vec<String> = std::env::args().skip(1).collect();
    let code = match args.first().map(|s| s.as_str()) {
        Some("campaign") => campaign(&args[1..]),
        Some("replay") => replay(&args[1..]),
        Some("shrink") => shrink(&args[1..]),
        Some("gen") => gen_cmd(&args[1..]),
        _ => {
            eprintln!("usage: ffisim campaign|replay|shrink|gen ...");
            2
        }
    };
    std::process::exit(code);
}
