//! Engine E1: sequential history simulation against reference models.
//!
//!   histsim campaign --check C02 --seed 1 --from 0 --to 1000 --out res.json [--progress f]
//!   histsim replay <file> --check C02        exit 1 iff the recorded violation reproduces
//!   histsim shrink <file> --check C02 --out <file>
//!   histsim show <file>

use oxsim::checks::*;
use oxsim::exec::*;
use oxsim::generate::*;
use oxsim::prog::*;
use oxsim::run::*;
use serde::{Deserialize, Serialize};
use std::io::Write;

#[derive(Serialize, Deserialize, Clone, Debug)]
pub struct Replay {
    pub engine: String,
    pub check: String,
    pub seed: u64,
    pub run: u64,
    pub batch: String,
    pub features: String,
    pub program: Program,
    pub violation: Violation,
    #[serde(default)]
    pub retry_need: Option<RetryInfo>,
}

#[derive(Serialize, Deserialize, Default)]
struct CampaignResult {
    check: String,
    seed: u64,
    from: u64,
    to: u64,
    runs: u64,
    skipped: u64,
    steps: u64,
    nontrivial_digests: Vec<String>,
    fault_runs: u64,
    stats: Stats,
    violations: Vec<Replay>,
    other_violations: std::collections::BTreeMap<String, u64>,
    samples: Vec<serde_json::Value>,
    obs_xor: String,
    ids_xor: String,
    /// per diagram kind: xor of the per-run observation digests (C20 compares these
    /// across build configurations)
    obs_by_kind: std::collections::BTreeMap<String, String>,
    runs_by_kind: std::collections::BTreeMap<String, u64>,
    wall_s: f64,
}

fn features() -> String {
    let mut f = vec![];
    f.push(if cfg!(feature = "pointer") { "manager-pointer" } else { "manager-index" });
    f.push(if cfg!(feature = "cache") { "cache" } else { "no-cache" });
    f.push(if cfg!(feature = "mt") { "mt" } else { "no-mt" });
    f.push(if cfg!(debug_assertions) { "simdbg" } else { "sim" });
    f.join(",")
}

fn arg(args: &[String], name: &str) -> Option<String> {
    args.iter().position(|a| a == name).and_then(|i| args.get(i + 1).cloned())
}

fn relevant<'a>(check: &str, vs: &'a [Violation]) -> Option<&'a Violation> {
    vs.iter().find(|v| v.props.iter().any(|p| p == check))
}

fn campaign(args: &[String]) -> i32 {
    let check = arg(args, "--check").expect("--check");
    let seed: u64 = arg(args, "--seed").map(|s| s.parse().unwrap()).unwrap_or(1);
    let from: u64 = arg(args, "--from").map(|s| s.parse().unwrap()).unwrap_or(0);
    let to: u64 = arg(args, "--to").map(|s| s.parse().unwrap()).unwrap_or(100);
    let out = arg(args, "--out");
    let progress = arg(args, "--progress");
    let offset: u64 = arg(args, "--offset").map(|s| s.parse().unwrap()).unwrap_or(0);
    let budget_s: f64 = arg(args, "--budget-s").map(|s| s.parse().unwrap()).unwrap_or(1e9);
    let max_viol: usize = arg(args, "--max-violations").map(|s| s.parse().unwrap()).unwrap_or(3);
    let mut bs = batches(&check);
    if let Some(ks) = arg(args, "--kinds") {
        let want: Vec<Kind> = ks.split(',').filter_map(Kind::parse).collect();
        for b in bs.iter_mut() {
            b.opts.kinds.retain(|k| want.contains(k));
        }
        bs.retain(|b| !b.opts.kinds.is_empty());
    }
    if bs.is_empty() {
        eprintln!("no E1 workload for {}", check);
        return 2;
    }
    let t0 = std::time::Instant::now();
    let mut res = CampaignResult { check: check.clone(), seed, from, to, ..Default::default() };
    let mut obs_xor = 0u64;
    let mut ids_xor = 0u64;
    let mut obs_kind: std::collections::BTreeMap<String, u64> = Default::default();
    let mut viol_f = arg(args, "--viol-file").map(|p| std::fs::OpenOptions::new().create(true).append(true).open(p).unwrap());
    let mut dump_f = arg(args, "--dump-obs").map(|p| std::fs::File::create(p).unwrap());
    let mut prog_f = progress.as_ref().map(|p| std::fs::OpenOptions::new().create(true).append(true).open(p).unwrap());
    let ro = RunOpts::default();
    let mut cand_f = arg(args, "--candidates-file").map(|p| std::fs::OpenOptions::new().create(true).append(true).open(p).unwrap());
    let mut n_cand: std::collections::BTreeMap<String, u32> = Default::default();
    for run0 in from..to {
        let run = run0 + offset;
        if t0.elapsed().as_secs_f64() > budget_s {
            res.to = run0;
            break;
        }
        let b = batch_for_run(&bs, run);
        let p = gen_program(seed, run, &b.opts);
        if !kind_supported(p.config.kind) {
            res.skipped += 1;
            continue;
        }
        if let Some(f) = prog_f.as_mut() {
            let _ = writeln!(f, "BEGIN {} {}", seed, run);
            let _ = f.flush();
        }
        let r = run_program(&p, &ro);
        res.runs += 1;
        res.steps += r.steps as u64;
        if let Some(f) = dump_f.as_mut() {
            let _ = writeln!(f, "{} {:?} {:016x} t{}", run, p.config.kind, r.obs_digest, p.config.threads);
        }
        obs_xor ^= r.obs_digest.rotate_left((run % 63) as u32);
        *obs_kind.entry(p.config.kind.name().to_string()).or_insert(0u64) ^= r.obs_digest.rotate_left((run % 63) as u32);
        *res.runs_by_kind.entry(p.config.kind.name().to_string()).or_default() += 1;
        ids_xor ^= r.ids_digest.rotate_left((run % 63) as u32);
        let faults: u64 = r.stats.c.iter().filter(|(k, _)| k.starts_with("fault.")).map(|(_, v)| *v).sum();
        if faults > 0 {
            res.fault_runs += 1;
        }
        if p.nontrivial() && faults > 0 {
            res.nontrivial_digests.push(format!("{:016x}", p.digest()));
        }
        res.stats.merge(&r.stats);
        if res.samples.len() < 3 && p.nontrivial() && p.instrs.len() <= 25 {
            res.samples.push(serde_json::json!({"run": run, "batch": b.name, "program": p}));
        }
        if let Some(v) = relevant(&check, &r.violations) {
            let rp = Replay {
                engine: "E1".into(),
                check: check.clone(),
                seed,
                run,
                batch: b.name.into(),
                features: features(),
                program: p.clone(),
                violation: v.clone(),
                retry_need: None,
            };
            if let Some(f) = viol_f.as_mut() {
                // a later crash of this process (e.g. heap corruption caused by this very
                // defect) must not lose the finding
                let _ = writeln!(f, "{}", serde_json::to_string(&rp).unwrap());
                let _ = f.flush();
            }
            res.violations.push(rp);
            if res.violations.len() >= max_viol {
                res.to = run0 + 1;
                break;
            }
        } else if let Some(v) = r.violations.first() {
            *res.other_violations.entry(format!("{}:{}", v.props.join("+"), v.class)).or_default() += 1;
            // C06 differential: the driver re-runs these on the build without apply cache
            let key = format!("{}:{}", v.props.join("+"), v.class);
            let seen = n_cand.entry(key).or_insert(0u32);
            if let (Some(f), true) = (cand_f.as_mut(), *seen < 2) {
                *seen += 1;
                let rp = Replay {
                    engine: "E1".into(),
                    check: v.props.first().cloned().unwrap_or_default(),
                    seed,
                    run,
                    batch: b.name.into(),
                    features: features(),
                    program: p.clone(),
                    violation: v.clone(),
                    retry_need: None,
                };
                let mut line = serde_json::to_string(&rp).unwrap();
                line.push('\n');
                let _ = f.write_all(line.as_bytes());
                let _ = f.flush();
            }
        }
    }
    if let Some(f) = prog_f.as_mut() {
        let _ = writeln!(f, "DONE {} {}", seed, res.to);
    }
    res.obs_by_kind = obs_kind.into_iter().map(|(k, v)| (k, format!("{:016x}", v))).collect();
    res.obs_xor = format!("{:016x}", obs_xor);
    res.ids_xor = format!("{:016x}", ids_xor);
    res.wall_s = t0.elapsed().as_secs_f64();
    let js = serde_json::to_string(&res).unwrap();
    match out {
        Some(o) => std::fs::write(o, js).unwrap(),
        None => println!("{}", js),
    }
    if res.violations.is_empty() { 0 } else { 1 }
}

fn load(path: &str) -> Replay {
    let s = std::fs::read_to_string(path).unwrap_or_else(|e| {
        eprintln!("cannot read {}: {}", path, e);
        std::process::exit(2)
    });
    serde_json::from_str(&s).unwrap_or_else(|e| {
        eprintln!("cannot parse {}: {}", path, e);
        std::process::exit(2)
    })
}

fn same_failure(want: &Violation, check: &str, vs: &[Violation]) -> Option<Violation> {
    // C06 differential finding: the same failure of whatever property, which the driver has
    // seen disappear on the build without apply cache
    if let Some(cls) = want.class.strip_prefix("cache-dependent:") {
        return vs.iter().find(|v| v.class == cls).cloned().map(|mut v| {
            v.class = want.class.clone();
            if !v.props.iter().any(|p| p == "C06") {
                v.props.push("C06".into());
            }
            v
        });
    }
    vs.iter().find(|v| v.class == want.class && v.props.iter().any(|p| p == check)).cloned()
}

fn replay(args: &[String]) -> i32 {
    let rp = load(&args[0]);
    let check = arg(args, "--check").unwrap_or(rp.check.clone());
    let log = args.iter().any(|a| a == "--log");
    let retry = rp.check == "C14";
    let r = run_program(&rp.program, &RunOpts { log, retry_target: retry, retry_need: rp.retry_need, ..Default::default() });
    if let Some(l) = &r.log {
        for line in l {
            println!("{}", line);
        }
    }
    for v in &r.violations {
        println!("violation props={} class={} step={} {}", v.props.join("+"), v.class, v.step as i64, v.detail);
    }
    println!("obs_digest={:016x} ids_digest={:016x} steps={}", r.obs_digest, r.ids_digest, r.steps);
    match same_failure(&rp.violation, &check, &r.violations) {
        Some(v) => {
            println!("REPRODUCED property={} class={} step={}", check, v.class, v.step as i64);
            1
        }
        None => {
            println!("NOT-REPRODUCED property={} class={}", check, rp.violation.class);
            0
        }
    }
}

fn fails(p: &Program, want: &Violation, check: &str) -> Option<Violation> {
    let r = run_program(p, &RunOpts { retry_target: check == "C14" && want.class != "retry-fails", ..Default::default() });
    same_failure(want, check, &r.violations)
}

fn shrink(args: &[String]) -> i32 {
    let mut rp = load(&args[0]);
    let check = arg(args, "--check").unwrap_or(rp.check.clone());
    let out = arg(args, "--out").expect("--out");
    let mut budget = 2000usize;
    let Some(mut cur_v) = fails(&rp.program, &rp.violation, &check) else {
        eprintln!("shrink: the failure does not reproduce");
        return 2;
    };
    let mut prog = rp.program.clone();
    // cut everything after the failing step
    if cur_v.step < prog.instrs.len() {
        prog.instrs.truncate(cur_v.step + 1);
    }
    // ddmin-style: remove chunks
    let mut chunk = (prog.instrs.len() / 2).max(1);
    while chunk >= 1 && budget > 0 {
        let mut i = 0;
        let mut progress = false;
        while i < prog.instrs.len() && budget > 0 {
            let mut cand = prog.clone();
            let hi = (i + chunk).min(cand.instrs.len());
            cand.instrs.drain(i..hi);
            budget -= 1;
            if let Some(v) = fails(&cand, &rp.violation, &check) {
                prog = cand;
                cur_v = v;
                progress = true;
            } else {
                i += chunk;
            }
        }
        if chunk == 1 && !progress {
            break;
        }
        if !progress {
            chunk /= 2;
        } else if chunk > 1 {
            chunk = (chunk / 2).max(1);
        }
    }
    // simplify knobs: fewer variables, default cache, ample capacity
    let tries: Vec<Box<dyn Fn(&mut Program)>> = vec![
        Box::new(|p| p.config.cache = 1024),
        Box::new(|p| {
            p.config.capacity = 1 << 16;
            p.config.oom_ok = false;
            p.config.probe = false
        }),
        Box::new(|p| p.config.probe = false),
        Box::new(|p| p.config.vars = p.config.vars.saturating_sub(1)),
        Box::new(|p| p.config.vars = p.config.vars.saturating_sub(1)),
        Box::new(|p| p.config.vars = p.config.vars.saturating_sub(1)),
    ];
    for t in tries {
        let mut cand = prog.clone();
        t(&mut cand);
        if cand != prog && budget > 0 {
            budget -= 1;
            if let Some(v) = fails(&cand, &rp.violation, &check) {
                prog = cand;
                cur_v = v;
            }
        }
    }
    rp.program = prog;
    rp.violation = cur_v;
    rp.check = check;
    std::fs::write(&out, serde_json::to_string_pretty(&rp).unwrap()).unwrap();
    println!("shrunk to {} instructions -> {}", rp.program.instrs.len(), out);
    0
}

#[derive(Serialize, Deserialize, Default)]
struct SweepResult {
    check: String,
    seed: u64,
    programs: u64,
    skipped: u64,
    runs: u64,
    steps: u64,
    capacity_points: u64,
    terminal_capacity_points: u64,
    oom_runs: u64,
    retry_checked: u64,
    nontrivial_digests: Vec<String>,
    stats: Stats,
    violations: Vec<Replay>,
    other_violations: std::collections::BTreeMap<String, u64>,
    samples: Vec<serde_json::Value>,
    targets: std::collections::BTreeMap<String, u64>,
    wall_s: f64,
}

fn instr_variant(i: &Instr) -> String {
    let s = format!("{:?}", i);
    s.split(|c: char| !c.is_alphanumeric()).next().unwrap_or("?").to_string()
}

/// C14: for every generated program, learn its peak slot usage with ample capacity, then
/// re-run it once for every capacity 0..=peak (and every terminal capacity for MTBDDs)
fn sweep(args: &[String]) -> i32 {
    let check = "C14".to_string();
    let seed: u64 = arg(args, "--seed").map(|s| s.parse().unwrap()).unwrap_or(1);
    let from: u64 = arg(args, "--from").map(|s| s.parse().unwrap()).unwrap_or(0);
    let to: u64 = arg(args, "--to").map(|s| s.parse().unwrap()).unwrap_or(10);
    let offset: u64 = arg(args, "--offset").map(|s| s.parse().unwrap()).unwrap_or(0);
    let out = arg(args, "--out");
    let mut prog_f = arg(args, "--progress").map(|p| std::fs::OpenOptions::new().create(true).append(true).open(p).unwrap());
    let mut viol_f = arg(args, "--viol-file").map(|p| std::fs::OpenOptions::new().create(true).append(true).open(p).unwrap());
    let mut bs = batches(&check);
    if let Some(ks) = arg(args, "--kinds") {
        let want: Vec<Kind> = ks.split(',').filter_map(Kind::parse).collect();
        for b in bs.iter_mut() {
            b.opts.kinds.retain(|k| want.contains(k));
        }
        bs.retain(|b| !b.opts.kinds.is_empty());
    }
    let t0 = std::time::Instant::now();
    let mut res = SweepResult { check: check.clone(), seed, ..Default::default() };
    'outer: for run0 in from..to {
        let run = run0 + offset;
        let b = batch_for_run(&bs, run);
        let mut p = gen_sweep_program(seed, run, &b.opts);
        if !kind_supported(p.config.kind) || cfg!(feature = "pointer") {
            res.skipped += 1;
            continue;
        }
        if let Some(f) = prog_f.as_mut() {
            let _ = writeln!(f, "BEGIN {} {}", seed, run);
            let _ = f.flush();
        }
        // 1. ample capacity: must be clean; learn the peaks and what the retry needs
        p.config.capacity = 1 << 16;
        p.config.term_capacity = 4096;
        p.config.oom_ok = false;
        p.config.probe = false;
        // should the process die in this program, the driver turns this record (plus the last
        // POINT line of the progress file) into a replay file of class abort
        let pending = arg(args, "--progress").map(|f| format!("{}.pending", f));
        let write_pending = |need: Option<RetryInfo>| {
            if let Some(f) = pending.as_ref() {
                let rp = Replay {
                    engine: "E1".into(),
                    check: check.clone(),
                    seed,
                    run,
                    batch: "sweep".into(),
                    features: features(),
                    program: p.clone(),
                    violation: Violation { props: vec![check.clone()], class: "abort".into(), step: 0, detail: String::new() },
                    retry_need: need,
                };
                let _ = std::fs::write(f, serde_json::to_string(&rp).unwrap());
            }
        };
        write_pending(None);
        let ample = run_program(&p, &RunOpts { retry_target: true, ..Default::default() });
        res.runs += 1;
        res.steps += ample.steps as u64;
        if let Some(v) = ample.violations.first() {
            *res.other_violations.entry(format!("{}:{}", v.props.join("+"), v.class)).or_default() += 1;
            continue;
        }
        res.programs += 1;
        *res.targets.entry(p.instrs.last().map(instr_variant).unwrap_or_default()).or_default() += 1;
        let need = ample.retry;
        write_pending(need);
        let lo = if p.config.kind == Kind::Zbdd { b.opts.max_vars + 1 } else { 0 };
        // capacities >= 100 enable the background collector thread, whose schedule E1 does
        // not control (that is engine E2's business): sweep up to 99 only
        let hi = (ample.peak_inner as u32 + 1).min(99);
        let mut points: Vec<(u32, u32)> = (lo..=hi).map(|c| (c, 4096)).collect();
        if matches!(p.config.kind, Kind::MtbddI | Kind::MtbddF) {
            for t in 0..=(ample.peak_terms as u32 + 1) {
                points.push((1 << 16, t));
            }
        }
        let mut any_oom = false;
        for (c, t) in points {
            let mut q = p.clone();
            q.config.capacity = c;
            q.config.term_capacity = t;
            q.config.oom_ok = true;
            q.config.probe = c < 100;
            if let Some(f) = prog_f.as_mut() {
                let _ = writeln!(f, "POINT {} {}", c, t);
                let _ = f.flush();
            }
            let r = run_program(&q, &RunOpts { retry_target: true, retry_need: need, ..Default::default() });
            res.runs += 1;
            res.steps += r.steps as u64;
            if t == 4096 {
                res.capacity_points += 1
            } else {
                res.terminal_capacity_points += 1
            }
            let ooms = r.stats.get("fault.oom_result");
            if ooms > 0 {
                res.oom_runs += 1;
                any_oom = true;
            }
            if r.retry.is_some() && need.is_some() {
                res.retry_checked += 1;
            }
            res.stats.merge(&r.stats);
            if let Some(v) = relevant(&check, &r.violations) {
                let rp = Replay {
                    engine: "E1".into(),
                    check: check.clone(),
                    seed,
                    run,
                    batch: "sweep".into(),
                    features: features(),
                    program: q.clone(),
                    violation: v.clone(),
                    retry_need: need,
                };
                if let Some(f) = viol_f.as_mut() {
                    let _ = writeln!(f, "{}", serde_json::to_string(&rp).unwrap());
                    let _ = f.flush();
                }
                res.violations.push(rp);
                if res.violations.len() >= 3 {
                    break 'outer;
                }
                break;
            } else if let Some(v) = r.violations.first() {
                *res.other_violations.entry(format!("{}:{}", v.props.join("+"), v.class)).or_default() += 1;
            }
        }
        if any_oom {
            res.nontrivial_digests.push(format!("{:016x}", p.digest()));
        }
        if res.samples.len() < 3 && p.instrs.len() <= 20 {
            res.samples.push(serde_json::json!({"run": run, "program": p, "capacities_swept": format!("{}..={}", lo, ample.peak_inner + 1), "retry_need": need}));
        }
    }
    res.wall_s = t0.elapsed().as_secs_f64();
    let js = serde_json::to_string(&res).unwrap();
    match out {
        Some(o) => std::fs::write(o, js).unwrap(),
        None => println!("{}", js),
    }
    if res.violations.is_empty() { 0 } else { 1 }
}

/// write the replay skeleton of (check, seed, run) with a given violation class (used by
/// the driver when a worker process died: the class is then "abort")
fn gen_cmd(args: &[String]) -> i32 {
    let check = arg(args, "--check").expect("--check");
    let seed: u64 = arg(args, "--seed").map(|s| s.parse().unwrap()).unwrap_or(1);
    let run: u64 = arg(args, "--run").map(|s| s.parse().unwrap()).expect("--run");
    let class = arg(args, "--class").unwrap_or("abort".into());
    let out = arg(args, "--out").expect("--out");
    let mut bs = batches(&check);
    if let Some(ks) = arg(args, "--kinds") {
        let want: Vec<Kind> = ks.split(',').filter_map(Kind::parse).collect();
        for b in bs.iter_mut() {
            b.opts.kinds.retain(|k| want.contains(k));
        }
        bs.retain(|b| !b.opts.kinds.is_empty());
    }
    let b = batch_for_run(&bs, run);
    let p = gen_program(seed, run, &b.opts);
    let rp = Replay {
        engine: "E1".into(),
        check: check.clone(),
        seed,
        run,
        batch: b.name.into(),
        features: features(),
        program: p,
        violation: Violation { props: vec![check], class, step: 0, detail: "worker process died during this run".into() },
        retry_need: None,
    };
    std::fs::write(out, serde_json::to_string_pretty(&rp).unwrap()).unwrap();
    0
}

fn main() {
    if std::env::var_os("OXIDD_STACK_SIZE").is_none() {
        // the manager's worker threads reserve 1 GiB of stack each by default
        unsafe { std::env::set_var("OXIDD_STACK_SIZE", (32 * 1024 * 1024).to_string()) };
    }
    install_quiet_panic_hook();
    let args: Vec<String> = std::env::args().skip(1).collect();
    let code = match args.first().map(|s| s.as_str()) {
        Some("campaign") => campaign(&args[1..]),
        Some("replay") => replay(&args[1..]),
        Some("shrink") => shrink(&args[1..]),
        Some("sweep") => sweep(&args[1..]),
        Some("gen") => gen_cmd(&args[1..]),
        Some("features") => {
            println!("{}", features());
            0
        }
        _ => {
            eprintln!("usage: histsim campaign|replay|shrink ...");
            2
        }
    };
    std::process::exit(code);
}
