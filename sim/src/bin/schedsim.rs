//! Engine E2: schedule simulation. Several simulated caller threads, the manager's worker
//! pool (deterministic stub) and its background collector thread run on the hooked build;
//! a seeded scheduler decides every interleaving.
//!
//!   schedsim campaign --check C07 --seed 1 --from 0 --to 100 --out res.json
//!   schedsim replay <file>
//!   schedsim shrink <file> --out <file>
//!   schedsim gen --check C07 --seed 1 --run 17 --out <file> [--trace-from failfile]

use oxsim::exec::*;
use oxsim::generate::*;
use oxsim::model::Model;
use oxsim::prog::*;
use oxsim::rng::{Rng, STREAM_CONFIG};
use oxsim::run::{install_quiet_panic_hook, make_machine_send};
use oxsim::sched::{SchedCfg, SimStats, Strategy, Trace, sim};
use serde::{Deserialize, Serialize};
use std::io::Write;
use std::sync::{Arc, Mutex};

#[derive(Clone, Debug, Serialize, Deserialize, PartialEq)]
pub struct Scenario {
    pub config: Config,
    pub shared: Vec<Instr>,
    pub threads: Vec<Vec<Instr>>,
    /// instructions executed by a thread that takes the exclusive lock (reorder, add_vars)
    #[serde(default)]
    pub exclusive: Vec<Instr>,
    /// C14: after the callers have finished, the main thread drops everything but the operands
    /// of this instruction, collects, and executes it (with the worker pool); the node need of
    /// that step is learnt from a twin run with ample capacity
    #[serde(default)]
    pub retry: Option<Instr>,
    pub sched: SchedCfg,
}

#[derive(Serialize, Deserialize, Clone, Debug)]
pub struct Replay {
    pub engine: String,
    pub check: String,
    pub seed: u64,
    pub run: u64,
    pub features: String,
    pub scenario: Scenario,
    pub trace: Trace,
    pub violation: Violation,
}

#[derive(Serialize, Deserialize, Clone, Debug, Default)]
pub struct ScenarioResult {
    pub violations: Vec<Violation>,
    pub stats: Stats,
    pub sim: SimStats,
    pub trace: Trace,
    pub obs_digest: u64,
    pub ids_digest: u64,
    pub instrs: u64,
}

fn features() -> String {
    let mut f = vec!["manager-index"];
    f.push(if cfg!(feature = "cache") { "cache" } else { "no-cache" });
    f.push(if cfg!(feature = "mt") { "mt" } else { "no-mt" });
    f.push("hooked");
    f.join(",")
}

fn arg(args: &[String], name: &str) -> Option<String> {
    args.iter().position(|a| a == name).and_then(|i| args.get(i + 1).cloned())
}

// ---------------------------------------------------------------- scenario generation

struct Profile {
    kinds: Vec<Kind>,
    /// emphasise clone/drop/gc
    gc_heavy: bool,
    buggify_cache: bool,
    buggify_alloc: bool,
    tight: bool,
    exclusive: bool,
    max_vars: u32,
}

fn profile(check: &str) -> Profile {
    let bool3 = vec![Kind::Bdd, Kind::Bcdd, Kind::Zbdd];
    let all = vec![Kind::Bdd, Kind::Bcdd, Kind::Zbdd, Kind::MtbddI, Kind::Tdd];
    let base = Profile { kinds: bool3.clone(), gc_heavy: false, buggify_cache: false, buggify_alloc: false, tight: false, exclusive: false, max_vars: 6 };
    match check {
        "C07" => Profile { kinds: all, exclusive: true, ..base },
        "C05" => Profile { kinds: all, gc_heavy: true, tight: true, ..base },
        "C06" => Profile { kinds: all, buggify_cache: true, ..base },
        "C14" => Profile { kinds: all, buggify_alloc: true, tight: true, ..base },
        "C08" => Profile { kinds: vec![Kind::Bdd, Kind::Bcdd, Kind::MtbddI, Kind::Tdd], exclusive: true, max_vars: 8, ..base },
        "C01" | "C03" => Profile { kinds: all, exclusive: true, ..base },
        "C02" | "C20" => Profile { kinds: bool3, ..base },
        "C04" => Profile { kinds: vec![Kind::Bdd, Kind::Bcdd], ..base },
        "C09" => Profile { kinds: vec![Kind::Zbdd], ..base },
        _ => base,
    }
}

/// C14: a store that has been full (so that only the free lists can serve allocations), then a
/// collection, then one operation spread over several workers
fn gen_retry_scenario(seed: u64, run: u64) -> Scenario {
    let mut rng = Rng::new(seed, run, STREAM_CONFIG);
    let kind = *rng.pick(&[Kind::Bdd, Kind::Bcdd]);
    let vars = rng.range(4, 6) as u32;
    let workers = *rng.pick(&[2u32, 2, 3]);
    let config = Config {
        kind,
        vars,
        capacity: rng.range(40, 99) as u32,
        term_capacity: 64,
        cache: *rng.pick(&[1u32, 16, 1024]),
        threads: workers,
        split_depth: Some(*rng.pick(&[1u32, 2, 3, 30])),
        probe: false,
        oom_ok: true,
        unguarded: false,
        io_faults: false,
        io_corrupt: false,
        io_seed: 0,
    };
    // fill the store: many functions with large diagrams, most of them garbage later
    // the operands first, then garbage until the store is full
    let mut shared = vec![];
    let (a, b, c) = (20 as Reg, 21 as Reg, 22 as Reg);
    shared.push(Instr::Table { d: a, bits: rng.next() });
    shared.push(Instr::Table { d: b, bits: rng.next() });
    shared.push(Instr::Table { d: c, bits: rng.next() });
    let nfill = rng.range(8, 20);
    for i in 0..nfill {
        shared.push(Instr::Table { d: (i % 12) as Reg, bits: rng.next() });
    }
    let target = match rng.below(3) {
        0 => Instr::Bin { d: 23, op: *rng.pick(&[BinOp::Xor, BinOp::And, BinOp::Or, BinOp::Equiv]), a, b },
        1 => Instr::Ite { d: 23, a, b, c },
        _ => Instr::Bin { d: 23, op: BinOp::Xor, a: b, b: c },
    };
    let strategy = match rng.below(3) {
        0 => Strategy::Random { switch_permille: *rng.pick(&[100u32, 300, 700]) },
        1 => Strategy::Random { switch_permille: 1000 },
        _ => Strategy::Pct { change_points: vec![rng.range(50, 3000)] },
    };
    Scenario {
        config,
        shared,
        threads: vec![vec![target.clone()]],
        exclusive: vec![],
        retry: Some(target),
        sched: SchedCfg { seed: seed ^ run.wrapping_mul(0x9e3779b97f4a7c15), strategy, max_steps: 400_000, buggify: vec![], knobs: vec![(200, 0)] },
    }
}

fn gen_scenario(check: &str, seed: u64, run: u64) -> Scenario {
    if check == "C14" && run % 4 == 3 {
        return gen_retry_scenario(seed, run);
    }
    let pf = profile(check);
    let mut rng = Rng::new(seed, run, STREAM_CONFIG);
    let kind = *rng.pick(&pf.kinds);
    let maxv = match kind {
        Kind::Tdd => 3,
        Kind::MtbddI | Kind::MtbddF => 4,
        _ => pf.max_vars,
    };
    let vars = rng.range(2, maxv as u64) as u32;
    let workers = *rng.pick(&[1u32, 2, 2, 3]);
    let collector_active = pf.tight || rng.chance(1, 3);
    let capacity = if collector_active { *rng.pick(&[104u32, 128, 160, 256]) } else { 1 << 16 };
    // C07 (since seeded change C07-7): one scenario in five also meets allocation failures, so that the
    // error paths of the parallel recursion (results of finished halves, guards around join()) run
    // under schedules as well
    let alloc_fail = (pf.buggify_alloc && rng.chance(2, 3)) || (check == "C07" && rng.chance(1, 5));
    let config = Config {
        kind,
        vars,
        capacity,
        term_capacity: if pf.tight && rng.chance(1, 3) { 6 } else { 64 },
        cache: *rng.pick(&[1u32, 2, 16, 1024]),
        threads: workers,
        split_depth: if workers > 1 { Some(*rng.pick(&[0u32, 1, 2, 3, 30])) } else { None },
        probe: false,
        oom_ok: collector_active || alloc_fail,
        unguarded: false,
        io_faults: false,
        io_corrupt: false,
        io_seed: 0,
    };
    // generator options
    let mut o = GenOpts::base(&[kind]);
    o.allow_names = false;
    o.allow_order = false;
    o.allow_dddmp = false;
    o.max_vars = maxv;
    o = o.emph(Class::AddVars, 0).emph(Class::SatCount, 2).emph(Class::Pick, 3).emph(Class::Leaf, 6);
    if pf.gc_heavy {
        o = o.emph(Class::CloneH, 14).emph(Class::DropH, 14).emph(Class::Gc, 14);
    }
    let shared_len = rng.range(4, 14) as usize;
    let (shared, model) = gen_segment(seed, run, 1000, &o, kind, vars, None, shared_len);
    let nthreads = rng.range(2, 4) as usize;
    let mut threads: Vec<Vec<Instr>> = vec![];
    for t in 0..nthreads {
        if t > 0 && rng.chance(1, 3) {
            // the same script on two threads: the same functions derived concurrently
            threads.push(threads[0].clone());
            continue;
        }
        let len = rng.range(3, 9) as usize;
        let (p, _) = gen_segment(seed, run, 2000 + t as u64, &o, kind, vars, Some(&model), len);
        threads.push(p);
    }
    // histories that matter for weak cache entries and reference counts under concurrency:
    // compute, drop, compute the same again (the result's node dies and may be collected
    // or revived in between), beside threads that do nothing but collect
    if rng.chance(1, 2) {
        for t in threads.iter_mut() {
            let mut out = vec![];
            for ins in t.iter() {
                out.push(ins.clone());
                let dest = match ins {
                    Instr::Bin { d, .. } | Instr::Ite { d, .. } | Instr::NBin { d, .. } | Instr::TBin { d, .. } | Instr::ZBin { d, .. }
                    | Instr::Quantify { d, .. } | Instr::ApplyQuant { d, .. } | Instr::Subst { d, .. } | Instr::Not { d, .. } => Some(*d),
                    _ => None,
                };
                if let Some(d) = dest {
                    if !ins.operands().contains(&d) && rng.chance(2, 3) {
                        let reps = rng.range(1, 2);
                        for _ in 0..reps {
                            out.push(Instr::Drop { a: d });
                            out.push(ins.clone());
                        }
                    }
                }
            }
            *t = out;
        }
    }
    if rng.chance(1, 2) {
        let k = rng.range(2, 6) as usize;
        threads.push(vec![Instr::Gc; k]);
    }
    let mut exclusive = vec![];
    if pf.exclusive && rng.chance(1, 2) && capacity == 1 << 16 && !alloc_fail {
        let k = rng.range(1, 3);
        for _ in 0..k {
            let mut vs: Vec<u32> = (0..vars).collect();
            rng.shuffle(&mut vs);
            exclusive.push(Instr::Order { order: vs, seq: rng.bool() });
        }
    }
    if !exclusive.is_empty() {
        // nothing order-dependent may be judged while another thread reorders
        for t in threads.iter_mut() {
            t.retain(|i| {
                !matches!(
                    i,
                    Instr::Cof { .. } | Instr::TCof { .. } | Instr::NodeCount { .. } | Instr::PickCube { .. } | Instr::PickCubeDd { .. }
                        | Instr::PickCubeDdSet { .. } | Instr::PickUniform { .. }
                )
            });
        }
    }
    let strategy = match rng.below(6) {
        0 | 1 => Strategy::Random { switch_permille: *rng.pick(&[20u32, 100, 300, 700]) },
        2 => Strategy::Random { switch_permille: 1000 },
        3 | 4 => {
            let d = rng.range(1, 3);
            Strategy::Pct { change_points: (0..d).map(|_| rng.range(50, 6000)).collect() }
        }
        _ => {
            let from = rng.range(0, 3000);
            Strategy::Starve { victim: rng.range(1, 6) as usize, from, to: from + rng.range(200, 5000), switch_permille: *rng.pick(&[50u32, 300]) }
        }
    };
    let mut buggify = vec![];
    if pf.buggify_cache || rng.chance(1, 4) {
        buggify.push((101, *rng.pick(&[50u32, 300, 1000])));
        buggify.push((102, *rng.pick(&[0u32, 50, 300])));
    }
    if alloc_fail {
        buggify.push((100, *rng.pick(&[5u32, 30, 150])));
    }
    Scenario {
        config,
        shared,
        threads,
        exclusive,
        retry: None,
        sched: SchedCfg { seed: seed ^ run.wrapping_mul(0x9e3779b97f4a7c15), strategy, max_steps: 400_000, buggify, knobs: vec![(200, 0)] },
    }
}

/// generate a program segment continuing from `start` (or a fresh model)
fn gen_segment(seed: u64, run: u64, salt: u64, o: &GenOpts, kind: Kind, vars: u32, start: Option<&Model>, len: usize) -> (Vec<Instr>, Model) {
    let model = start.cloned().unwrap_or_else(|| Model::new(kind, vars));
    let (instrs, model) = oxsim::generate::gen_from(seed ^ salt.wrapping_mul(0xa24baed4963ee407), run, o, model, len);
    (instrs, model)
}

// ---------------------------------------------------------------- execution

fn run_scenario(sc: &Scenario, replay: Option<Trace>) -> ScenarioResult {
    if sc.retry.is_none() {
        return run_scenario_with(sc, replay, None).0;
    }
    // twin run with ample capacity (its own seeded schedule): what does the retried step read,
    // and how many nodes does it create?
    let mut ample = sc.clone();
    ample.config.capacity = 1 << 16;
    ample.config.oom_ok = false;
    let (ar, need) = run_scenario_with(&ample, None, None);
    if !ar.violations.is_empty() {
        return ar;
    }
    let (mut r, _) = run_scenario_with(sc, replay, Some(need));
    r.stats.merge(&ar.stats);
    r
}

fn run_scenario_with(sc: &Scenario, replay: Option<Trace>, need: Option<Option<RetryInfo>>) -> (ScenarioResult, Option<RetryInfo>) {
    let mut retry_info = None;
    let mut cfg = sc.sched.clone();
    if replay.is_some() {
        cfg.strategy = Strategy::Replay;
    }
    sim().begin(cfg, replay);
    let mut ctx = RunCtx::new(true, false);
    ctx.pre_audit = Some(|| sim().settle());
    let mut model = Model::new(sc.config.kind, sc.config.vars);
    let mut instrs = 0u64;
    let outcome = std::panic::catch_unwind(std::panic::AssertUnwindSafe(|| {
        let mut main = make_machine_send(&sc.config);
        sim().settle();
        main.audit(&model, &mut ctx);
        // set-up (adding variables has no error channel) is over: faults may fire now
        sim().enable_buggify(true);
        for (i, ins) in sc.shared.iter().enumerate() {
            if ctx.failed() {
                break;
            }
            ctx.step = i;
            main.step(ins, &mut model, &mut ctx);
            instrs += 1;
        }
        if !ctx.failed() {
            let results: Arc<Mutex<Vec<(usize, RunCtx, Box<dyn std::any::Any + Send>, u64)>>> = Arc::new(Mutex::new(vec![]));
            let mut handles = vec![];
            let unstable = !sc.exclusive.is_empty();
            for (t, prog) in sc.threads.iter().enumerate() {
                let mut m = main.attach_boxed();
                let mut md = model.clone();
                let prog = prog.clone();
                let results = results.clone();
                handles.push(sim().spawn("caller", move || {
                    let mut c = RunCtx::new(false, false);
                    c.concurrent = true;
                    c.order_unstable = unstable;
                    let mut n = 0;
                    let r = std::panic::catch_unwind(std::panic::AssertUnwindSafe(|| {
                        for (i, ins) in prog.iter().enumerate() {
                            if c.failed() {
                                break;
                            }
                            c.step = 1000 * (t + 1) + i;
                            m.step(ins, &mut md, &mut c);
                            n += 1;
                        }
                    }));
                    if r.is_err() {
                        c.violate(&["C07"], "panic", format!("caller thread {} panicked: {}", t, oxsim::run::last_panic()));
                    }
                    let live = m.export_live(&mut md);
                    drop(m);
                    results.lock().unwrap().push((t, c, live, n));
                }));
            }
            // a thread that needs the exclusive lock (reordering) beside the callers
            let excl_model: Arc<Mutex<Option<Model>>> = Arc::new(Mutex::new(None));
            if !sc.exclusive.is_empty() {
                let mut m = main.attach_boxed();
                let mut md = model.clone();
                let prog = sc.exclusive.clone();
                let results = results.clone();
                let em = excl_model.clone();
                handles.push(sim().spawn("caller", move || {
                    let mut c = RunCtx::new(false, false);
                    c.concurrent = true;
                    let r = std::panic::catch_unwind(std::panic::AssertUnwindSafe(|| {
                        for (i, ins) in prog.iter().enumerate() {
                            c.step = 9000 + i;
                            m.step(ins, &mut md, &mut c);
                        }
                    }));
                    if r.is_err() {
                        c.violate(&["C07", "C08"], "panic", format!("reordering thread panicked: {}", oxsim::run::last_panic()));
                    }
                    let live = m.export_live(&mut md);
                    drop(m);
                    *em.lock().unwrap() = Some(md);
                    results.lock().unwrap().push((99, c, live, 0));
                }));
            }
            for h in &handles {
                h.join();
            }
            let mut rs = std::mem::take(&mut *results.lock().unwrap());
            rs.sort_by_key(|r| r.0);
            for (_, c, live, n) in rs {
                instrs += n;
                ctx.stats.merge(&c.stats);
                ctx.violations.extend(c.violations);
                ctx.obs.u64(c.obs.0);
                ctx.ids.u64(c.ids.0);
                ctx.oom_seen |= c.oom_seen;
                main.import_foreign(live);
            }
            if let Some(em) = excl_model.lock().unwrap().take() {
                // the order established by the reordering thread
                model.order = em.order;
            }
            // quiescent point: callers joined, workers idle, collector waiting
            sim().enable_buggify(false);
            sim().settle();
            ctx.step = 100_000;
            if !ctx.failed() {
                main.audit(&model, &mut ctx);
            }
            if !ctx.failed() {
                ctx.step = 100_001;
                main.step(&Instr::Gc, &mut model, &mut ctx);
            }
            main.clear_foreign();
            if let (Some(target), false) = (&sc.retry, ctx.failed()) {
                // the main thread retries with the worker pool: everything but the operands is
                // dropped and collected first (Machine::retry)
                ctx.step = 100_002;
                ctx.stats.bump("probe.parallel_retry");
                let r = main.retry(target, &mut model, &mut ctx);
                sim().settle();
                retry_info = r;
                if let (Some(r), Some(Some(nd))) = (r, need) {
                    // per-thread chunks (8 slots under the guard) may legitimately be reserved
                    // by every thread that allocates
                    let slack = 8 * (sc.config.threads as usize + 2);
                    let free = (sc.config.capacity as usize).saturating_sub(r.live);
                    let comparable = r.inputs == nd.inputs && r.live == nd.live;
                    if comparable {
                        ctx.stats.bump("probe.parallel_retry_comparable");
                    }
                    if comparable && free >= nd.delta + slack && !r.ok {
                        ctx.violate(
                            &["C14"],
                            "retry-fails-parallel",
                            format!(
                                "{:?} fails with out of memory after drop + gc although {} of {} slots are free and the operation creates {} nodes ({} workers)",
                                target, free, sc.config.capacity, nd.delta, sc.config.threads
                            ),
                        );
                    }
                    if comparable && r.ok {
                        ctx.stats.bump("probe.parallel_retry_succeeded");
                    }
                }
            }
            if !ctx.failed() {
                main.finish(&mut model, &mut ctx);
            }
        }
        // let the collector return to its wait, otherwise the Quit signal sent by the
        // last ManagerRef gets lost (thread and store leak; not one of the properties)
        sim().settle();
        drop(main);
    }));
    if outcome.is_err() {
        ctx.violate(&["C07"], "panic", format!("main thread panicked: {}", oxsim::run::last_panic()));
    }
    let (trace, simstats, leaked) = sim().end();
    if leaked > 0 {
        ctx.stats.add("probe.daemon_threads_left_behind", leaked);
    }
    (
        ScenarioResult {
            violations: ctx.violations,
            stats: ctx.stats,
            sim: simstats,
            trace,
            obs_digest: ctx.obs.0,
            ids_digest: ctx.ids.0,
            instrs,
        },
        retry_info,
    )
}

// ---------------------------------------------------------------- commands

#[derive(Serialize, Deserialize, Default)]
struct CampaignResult {
    check: String,
    seed: u64,
    runs: u64,
    steps: u64,
    instrs: u64,
    switches: u64,
    spins: u64,
    sim_threads: u64,
    buggify_fired: u64,
    nontrivial_digests: Vec<String>,
    distinct_traces: Vec<String>,
    stats: Stats,
    site_counts: std::collections::BTreeMap<u32, u64>,
    strategies: std::collections::BTreeMap<String, u64>,
    violations: Vec<Replay>,
    other_violations: std::collections::BTreeMap<String, u64>,
    samples: Vec<serde_json::Value>,
    obs_xor: String,
    ids_xor: String,
    wall_s: f64,
}

fn relevant<'a>(check: &str, vs: &'a [Violation]) -> Option<&'a Violation> {
    // every E2 scenario is a concurrent execution, and C07's statement includes its aftermath:
    // "exactly the handle that a sequential execution would return ... afterwards the diagram is
    // well-formed with exact reference counts" - so failures of canonicity (C01), structure (C03)
    // and reference counts / collection (C05) after a concurrent run count for C07 too
    vs.iter().find(|v| v.props.iter().any(|p| p == check || (check == "C07" && matches!(p.as_str(), "C01" | "C03" | "C05"))))
}

fn digest_json<T: Serialize>(x: &T) -> u64 {
    oxsim::rng::fnv_str(&serde_json::to_string(x).unwrap())
}

fn campaign(args: &[String]) -> i32 {
    let check = arg(args, "--check").expect("--check");
    let seed: u64 = arg(args, "--seed").map(|s| s.parse().unwrap()).unwrap_or(1);
    let from: u64 = arg(args, "--from").map(|s| s.parse().unwrap()).unwrap_or(0);
    let to: u64 = arg(args, "--to").map(|s| s.parse().unwrap()).unwrap_or(10);
    let offset: u64 = arg(args, "--offset").map(|s| s.parse().unwrap()).unwrap_or(0);
    let out = arg(args, "--out");
    let mut prog_f = arg(args, "--progress").map(|p| std::fs::OpenOptions::new().create(true).append(true).open(p).unwrap());
    let mut viol_f = arg(args, "--viol-file").map(|p| std::fs::OpenOptions::new().create(true).append(true).open(p).unwrap());
    let t0 = std::time::Instant::now();
    let mut res = CampaignResult { check: check.clone(), seed, ..Default::default() };
    let (mut ox, mut ix) = (0u64, 0u64);
    for run0 in from..to {
        let run = run0 + offset;
        let sc = gen_scenario(&check, seed, run);
        if let Some(f) = prog_f.as_mut() {
            let _ = writeln!(f, "BEGIN {} {}", seed, run);
            let _ = f.flush();
        }
        let r = run_scenario(&sc, None);
        res.runs += 1;
        res.steps += r.sim.steps;
        res.instrs += r.instrs;
        res.switches += r.sim.switches;
        res.spins += r.sim.spins;
        res.sim_threads += r.sim.threads + 1;
        res.buggify_fired += r.sim.buggify_fired;
        ox ^= r.obs_digest.rotate_left((run % 63) as u32);
        ix ^= r.ids_digest.rotate_left((run % 63) as u32);
        for (s, c) in &r.sim.site_counts {
            *res.site_counts.entry(*s).or_default() += c;
        }
        let sname = match &sc.sched.strategy {
            Strategy::Random { switch_permille } => format!("random:{}", switch_permille),
            Strategy::Pct { change_points } => format!("pct:{}", change_points.len()),
            Strategy::Starve { .. } => "starve".to_string(),
            Strategy::Replay => "replay".to_string(),
        };
        *res.strategies.entry(sname).or_default() += 1;
        res.stats.merge(&r.stats);
        if r.sim.switches > 0 {
            res.nontrivial_digests.push(format!("{:016x}", digest_json(&(&sc.shared, &sc.threads, &sc.exclusive)) ^ digest_json(&r.trace)));
        }
        res.distinct_traces.push(format!("{:016x}", digest_json(&r.trace)));
        if res.samples.len() < 2 {
            res.samples.push(serde_json::json!({"run": run, "scenario": sc, "switches": r.trace.switches.len(), "first_switches": r.trace.switches.iter().take(12).collect::<Vec<_>>()}));
        }
        if let Some(v) = relevant(&check, &r.violations) {
            let rp = Replay { engine: "E2".into(), check: check.clone(), seed, run, features: features(), scenario: sc.clone(), trace: r.trace.clone(), violation: v.clone() };
            if let Some(f) = viol_f.as_mut() {
                let _ = writeln!(f, "{}", serde_json::to_string(&rp).unwrap());
                let _ = f.flush();
            }
            res.violations.push(rp);
            if res.violations.len() >= 2 {
                break;
            }
        } else if let Some(v) = r.violations.first() {
            *res.other_violations.entry(format!("{}:{}", v.props.join("+"), v.class)).or_default() += 1;
        }
    }
    if let Some(f) = prog_f.as_mut() {
        let _ = writeln!(f, "DONE {}", seed);
    }
    res.obs_xor = format!("{:016x}", ox);
    res.ids_xor = format!("{:016x}", ix);
    res.wall_s = t0.elapsed().as_secs_f64();
    let js = serde_json::to_string(&res).unwrap();
    match out {
        Some(o) => std::fs::write(o, js).unwrap(),
        None => println!("{}", js),
    }
    if res.violations.is_empty() { 0 } else { 1 }
}

fn load(path: &str) -> Replay {
    let s = std::fs::read_to_string(path).unwrap_or_else(|e| {
        eprintln!("cannot read {}: {}", path, e);
        std::process::exit(2)
    });
    serde_json::from_str(&s).unwrap_or_else(|e| {
        eprintln!("cannot parse {}: {}", path, e);
        std::process::exit(2)
    })
}

fn same_failure(want: &Violation, check: &str, vs: &[Violation]) -> Option<Violation> {
    vs.iter().find(|v| v.class == want.class && v.props.iter().any(|p| p == check || (check == "C07" && matches!(p.as_str(), "C01" | "C03" | "C05")))).cloned()
}

fn replay(args: &[String]) -> i32 {
    let rp = load(&args[0]);
    let check = arg(args, "--check").unwrap_or(rp.check.clone());
    // a process that died could not hand over its trace: the seeded schedule is
    // deterministic, so the original strategy reproduces it
    let tr = if rp.trace.switches.is_empty() && rp.trace.buggify_fired.is_empty() { None } else { Some(rp.trace.clone()) };
    let r = run_scenario(&rp.scenario, tr);
    for v in &r.violations {
        println!("violation props={} class={} step={} {}", v.props.join("+"), v.class, v.step as i64, v.detail);
    }
    println!("obs_digest={:016x} ids_digest={:016x} steps={} switches={}", r.obs_digest, r.ids_digest, r.sim.steps, r.sim.switches);
    match same_failure(&rp.violation, &check, &r.violations) {
        Some(v) => {
            println!("REPRODUCED property={} class={} step={}", check, v.class, v.step as i64);
            1
        }
        None => {
            println!("NOT-REPRODUCED property={} class={}", check, rp.violation.class);
            0
        }
    }
}

/// in-process shrinking for failures that do not kill the process: drop instructions and
/// threads (free schedule first, then with the recorded trace), then drop trace switches
fn shrink(args: &[String]) -> i32 {
    let mut rp = load(&args[0]);
    let check = arg(args, "--check").unwrap_or(rp.check.clone());
    let out = arg(args, "--out").expect("--out");
    let fails = |sc: &Scenario, tr: &Trace| -> Option<Violation> {
        let r = run_scenario(sc, Some(tr.clone()));
        same_failure(&rp.violation, &check, &r.violations)
    };
    if fails(&rp.scenario, &rp.trace).is_none() {
        eprintln!("shrink: the failure does not reproduce");
        return 2;
    }
    let mut sc = rp.scenario.clone();
    let mut tr = rp.trace.clone();
    let mut budget = 400;
    // drop trace switches from the end (prefix of the schedule matters most)
    let mut chunk = (tr.switches.len() / 2).max(1);
    while chunk >= 1 && budget > 0 && !tr.switches.is_empty() {
        let mut i = 0;
        let mut progress = false;
        while i < tr.switches.len() && budget > 0 {
            let mut cand = tr.clone();
            let hi = (i + chunk).min(cand.switches.len());
            cand.switches.drain(i..hi);
            budget -= 1;
            if fails(&sc, &cand).is_some() {
                tr = cand;
                progress = true;
            } else {
                i += chunk;
            }
        }
        if chunk == 1 {
            break;
        }
        chunk = if progress { chunk } else { chunk / 2 }.max(1);
        if !progress && chunk == 1 && tr.switches.len() > 64 {
            break;
        }
    }
    // drop instructions of the caller programs (trace steps shift, so re-check)
    for t in 0..sc.threads.len() {
        let mut i = 0;
        while i < sc.threads[t].len() && budget > 0 {
            let mut cand = sc.clone();
            cand.threads[t].remove(i);
            budget -= 1;
            if fails(&cand, &tr).is_some() {
                sc = cand;
            } else {
                i += 1;
            }
        }
    }
    let mut i = 0;
    while i < sc.shared.len() && budget > 0 {
        let mut cand = sc.clone();
        cand.shared.remove(i);
        budget -= 1;
        if fails(&cand, &tr).is_some() {
            sc = cand;
        } else {
            i += 1;
        }
    }
    if let Some(v) = fails(&sc, &tr) {
        rp.scenario = sc;
        rp.trace = tr;
        rp.violation = v;
    }
    std::fs::write(&out, serde_json::to_string_pretty(&rp).unwrap()).unwrap();
    println!("shrunk: {} switches, {} shared + {:?} thread instructions -> {}", rp.trace.switches.len(), rp.scenario.shared.len(), rp.scenario.threads.iter().map(|t| t.len()).collect::<Vec<_>>(), out);
    0
}

fn gen_cmd(args: &[String]) -> i32 {
    let check = arg(args, "--check").expect("--check");
    let seed: u64 = arg(args, "--seed").map(|s| s.parse().unwrap()).unwrap_or(1);
    let run: u64 = arg(args, "--run").map(|s| s.parse().unwrap()).expect("--run");
    let out = arg(args, "--out").expect("--out");
    let sc = gen_scenario(&check, seed, run);
    let (trace, class, detail) = match arg(args, "--trace-from").and_then(|p| std::fs::read_to_string(p).ok()) {
        Some(s) => {
            let v: serde_json::Value = serde_json::from_str(&s).unwrap_or_default();
            let tr: Trace = serde_json::from_value(v["trace"].clone()).unwrap_or_default();
            (tr, v["class"].as_str().unwrap_or("abort").to_string(), v["detail"].as_str().unwrap_or("").to_string())
        }
        None => (Trace::default(), "abort".to_string(), "worker process died during this run".to_string()),
    };
    let rp = Replay {
        engine: "E2".into(),
        check: check.clone(),
        seed,
        run,
        features: features(),
        scenario: sc,
        trace,
        violation: Violation { props: vec![check], class, step: 0, detail },
    };
    std::fs::write(out, serde_json::to_string_pretty(&rp).unwrap()).unwrap();
    0
}

fn main() {
    install_quiet_panic_hook();
    #[cfg(oxidd_verif)]
    oxsim::sched::install_hooks();
    #[cfg(not(oxidd_verif))]
    {
        eprintln!("schedsim must be built with --cfg oxidd_verif");
        std::process::exit(2);
    }
    let args: Vec<String> = std::env::args().skip(1).collect();
    let code = match args.first().map(|s| s.as_str()) {
        Some("campaign") => campaign(&args[1..]),
        Some("replay") => replay(&args[1..]),
        Some("shrink") => shrink(&args[1..]),
        Some("gen") => gen_cmd(&args[1..]),
        _ => {
            eprintln!("usage: schedsim campaign|replay|shrink|gen ...");
            2
        }
    };
    std::process::exit(code);
}
