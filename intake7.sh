#!/bin/bash
# usage: intake7.sh <prop> <new-id> "<summary>" "<needs>" [confirm flags]  — take a round-7 sub-agent result from /tmp/wt7-<prop>
p=$1; id=$2; sum=$3; needs=$4; export CONFIRM_FLAGS="$5"
src=/tmp/wt7-$p; d=/verif/seeded/$id
mkdir -p $d && cp $src/patch.diff $d/ && cp $src/demo/*.rs $d/ && cp $src/notes.txt $d/author-notes.txt || exit 2
# the patch must not contain the demo
grep -q "crates/oxidd/tests/" $d/patch.diff && echo "WARNING: patch touches crates/oxidd/tests"
out=$(/verif/confirm_mutant.sh $d); echo "$out"
python3 - "$id" "$p" "$sum" "$needs" "$out" "$CONFIRM_FLAGS" <<'P'
import sys,json,re,os
id,p,sm,needs,out,flags=sys.argv[1:7]
d='/verif/seeded/'+id
files=re.findall(r'^\+\+\+ b/(\S+)',open(d+'/patch.diff').read(),re.M)
demos=[f for f in os.listdir(d) if f.endswith('.rs')]
json.dump({"id":id,"property":p,"summary":sm,"needs_to_manifest":needs,"files_changed":files,"demo":demos,
 "demo_command":"cp <demo>.rs crates/oxidd/tests/ && cargo test %s -p oxidd --test <demo> --offline"%flags,
 "author":"fresh sub-agent given only the property text and a scratch worktree (round 7: told which ideas were already taken)",
 "confirmed":{"demo_passes_on_unchanged_tree":"head:" in out and "=FAIL" not in out.split("patched:")[0],
  "demo_fails_with_patch":"patched:" in out and "=FAIL" in out.split("patched:",1)[1].split("suite")[0],
  "workspace_test_suite_passes_with_patch":"suite=pass" in out,"how":"/verif/confirm_mutant.sh: "+out.split(':',1)[1].strip()},
 "detection":{},"notes":""},open(d+'/meta.json','w'),indent=1)
P
