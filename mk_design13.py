#!/usr/bin/env python3
"""regenerate the two tables of DESIGN.md section 13 from seeded/*/meta.json"""
import json, os, re
root = os.path.dirname(os.path.abspath(__file__))
ms = [json.load(open(os.path.join(root, 'seeded', d, 'meta.json'))) for d in sorted(os.listdir(os.path.join(root, 'seeded'))) if os.path.isdir(os.path.join(root, 'seeded', d))]
rows = "\n".join("| %s | %s | %s | %s |" % (m['id'], m['property'], m['summary'].replace('|', '/'),
                 "; ".join("%s: %s" % kv for kv in m['detection'].items()).replace('|', '/')) for m in ms)
missed = [m for m in ms if any('after strengthening' in v for v in m['detection'].values()) or m['id'] == 'C07-H1']
tab2 = "\n".join("| %s (%s) | %s |" % (m['id'], m['summary'].split(':')[0][:90].replace('|', '/'), m['notes'].replace('|', '/')) for m in missed)
s = open(os.path.join(root, 'DESIGN.md')).read()
i = s.index("| id | property | change | detection (quick tier) |")
j = s.index("**What the misses changed.**")
s = s[:i] + "| id | property | change | detection (quick tier) |\n|---|---|---|---|\n" + rows + "\n\n" + s[j:]
i = s.index("| missed change | why it was missed, and what was strengthened |")
j = s.index("**Hand-made sensitivity probes during construction**")
s = s[:i] + "| missed change | why it was missed, and what was strengthened |\n|---|---|\n" + tab2 + "\n\n" + s[j:]
s = re.sub(r"\*\*Protocol\.\*\* \d+ changes", "**Protocol.** %d changes" % len(ms), s)
s = re.sub(r"\n\d+ of them\nwere MISSED at first", "\n%d of them\nwere MISSED at first" % len(missed), s)
open(os.path.join(root, 'DESIGN.md'), 'w').write(s)
print(len(ms), len(missed))
