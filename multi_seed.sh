#!/bin/bash
# quick tier of every check for several VERIF_SEED values (false-alarm hunt on the unchanged tree);
# also prints failures that a run attributed to OTHER properties (on the unchanged tree there must be none)
cd "$(dirname "$0")"
for s in "$@"; do
  for c in $(python3 -c "import json; print(' '.join(x['property_id'] for x in json.load(open('MANIFEST.json'))['checks']))"); do
    out=$(./check $c --tier quick --seed $s 2>&1 | grep -E "^(OK|VIOLATION|HARNESS)" | tr '\n' ' ')
    other=$(python3 -c "
import json
e=json.load(open('evidence/$c.json'))['coverage']
a=e.get('violations_attributed_to_other_properties'); b=e.get('e2_violations_attributed_to_other_properties')
print('OTHER', a, b) if (a or b) else print('')")
    echo "seed=$s $c: $out $other" | cut -c1-260
  done
done
