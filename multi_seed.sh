#!/bin/bash
# quick tier of every check for several VERIF_SEED values (false-alarm hunt on the unchanged tree)
cd "$(dirname "$0")"
for s in "$@"; do
  for c in $(python3 -c "import json; print(' '.join(x['property_id'] for x in json.load(open('MANIFEST.json'))['checks']))"); do
    out=$(./check $c --tier quick --seed $s 2>&1 | grep -E "^(OK|VIOLATION|HARNESS)" | tr '\n' ' ')
    echo "seed=$s $c: $out" | cut -c1-200
  done
done
